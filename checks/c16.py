"""
C16 - configured payload limits are enforced early and never by truncation.

Modes:
  recv     raw-peer world; the peer sends messages around the configured frame / message
           limits, spread over fragments; headers are delivered separately from payloads
           ("header-only delivery", payload withheld) so that the verdict must come before any
           payload octet of the offending frame.
  send     the application sends messages around maxMessagePayloadSize (with and without
           compression): over-limit sends raise and write nothing.
  inflate  permessage-deflate with a decompression size limit: an over-limit compressed message
           is never delivered shortened/altered and later messages stay intact.
"""

import struct
import zlib

from sim.core import SetupViolation, HarnessError
from sim.ref_ws import DeflateCodec, SenderMonitor, encode_frame, xor_mask
from worlds.ws import WsWorld, ws_classes

PROP = "C16"
MAX_STEPS = 200
MODES = ["recv", "recv", "send", "inflate"]

LIMITS = [1, 125, 126, 1000, 65535, 65536, 100000]


def body(n, salt=0):
    return bytes(((i * 31 + salt) & 0xFF) for i in range(min(n, 997))) * (n // 997 + 1) if n > 997 else bytes(
        ((i * 31 + salt) & 0xFF) for i in range(n))


def mk(n, salt=0):
    b = body(n, salt)
    return b[:n]


class World(WsWorld):
    PROP = PROP

    def __init__(self, run, mode="recv"):
        WsWorld.__init__(self, run)
        self.mode = mode
        self.script = []  # peer emissions: (kind, bytes, meta)
        self.expect = []  # expected deliveries in order
        self.offender = None
        self.stream_pos = 0
        self.app_ops = []
        self.expect_comp = []
        self.local_close_planned = False
        self.local_closed = False
        self.coalesce = False

    # --- build -------------------------------------------------------------------------------------
    def build(self):
        ch = self.run.ch
        self.make_reactor(0.0)
        aw, RecServer, RecClient = ws_classes()
        is_server = ch.flag("server")
        cfg = self.cfg = {"server": is_server, "failByDrop": ch.flag("failByDrop"), "mode": self.mode}
        self.kind = "raw-server" if is_server else "raw-client"
        opts = dict(failByDrop=cfg["failByDrop"], openHandshakeTimeout=0, closeHandshakeTimeout=1)
        ext_req = ext_resp = b""
        deflate = False
        if self.mode == "recv":
            cfg["M"] = ch.pick([0] + LIMITS, "maxMessage", [1] + [2] * len(LIMITS))
            cfg["F"] = ch.pick([0] + LIMITS, "maxFrame", [3] + [1] * len(LIMITS))
            if cfg["M"] == 0 and cfg["F"] == 0:
                cfg["M"] = 1000
            opts.update(maxMessagePayloadSize=cfg["M"], maxFramePayloadSize=cfg["F"])
            deflate = ch.flag("deflate", 0.2)
        elif self.mode == "send":
            cfg["M"] = ch.pick(LIMITS, "maxMessage")
            cfg["frag"] = ch.pick((0, 0, 1, 100, 65536), "autoFragmentSize")
            if cfg["frag"] == 1 and cfg["M"] > 1000:
                cfg["frag"] = 100
            opts.update(maxMessagePayloadSize=cfg["M"], autoFragmentSize=cfg["frag"])
            deflate = ch.flag("deflate", 0.4)
        else:
            cfg["Z"] = ch.pick((1, 10, 100, 1000, 5000, 2582, 2324, 2840, 300 + ch.choose(6000, "Z-any")), "max_message_size",
                               (1, 1, 2, 2, 2, 1, 1, 1, 3))
            deflate = True
            # both limits on one connection: a message size limit far above anything the peer sends (so that it decides
            # nothing on the receiving side), which the application's own over-limit sends run into
            cfg["M"] = ch.pick((0, 60000), "maxMessage-too", (2, 1))
            if cfg["M"]:
                opts.update(maxMessagePayloadSize=cfg["M"])
        cfg["deflate"] = deflate
        if is_server:
            fac = aw.WebSocketServerFactory("ws://localhost:9000", **self.fw.factory_kw(self.reactor))
            if deflate:
                from autobahn.websocket.compress import PerMessageDeflateOffer, PerMessageDeflateOfferAccept
                Z = cfg.get("Z")

                def accept(offers):
                    for o in offers:
                        if isinstance(o, PerMessageDeflateOffer):
                            return PerMessageDeflateOfferAccept(o, max_message_size=Z) if Z else PerMessageDeflateOfferAccept(o)
                opts["perMessageCompressionAccept"] = accept
                ext_req = b"Sec-WebSocket-Extensions: permessage-deflate\r\n"
        else:
            fac = aw.WebSocketClientFactory("ws://localhost:9000", **self.fw.factory_kw(self.reactor))
            opts["serverConnectionDropTimeout"] = 1
            if deflate:
                from autobahn.websocket.compress import PerMessageDeflateOffer, PerMessageDeflateResponseAccept
                Z = cfg.get("Z")
                opts["perMessageCompressionOffers"] = [PerMessageDeflateOffer()]
                opts["perMessageCompressionAccept"] = (lambda r: PerMessageDeflateResponseAccept(r, max_message_size=Z)) \
                    if Z else (lambda r: PerMessageDeflateResponseAccept(r))
                ext_resp = b"Sec-WebSocket-Extensions: permessage-deflate\r\n"
        # the limits may be configured on the connection itself (attributes set on the protocol object before it is
        # connected - the library copies a factory default only where the protocol has no value of its own), while the
        # factory holds other values: the connection's own values decide, also when they are 0 / False
        override = {}
        if self.mode in ("recv", "send") and ch.flag("limits-set-on-the-connection-not-the-factory", 0.25):
            override = {k: opts[k] for k in ("maxMessagePayloadSize", "maxFramePayloadSize", "failByDrop") if k in opts}
            opts.update(maxMessagePayloadSize=ch.pick(LIMITS, "factory-maxMessage"), failByDrop=not cfg["failByDrop"])
            if self.mode == "recv":
                opts.update(maxFramePayloadSize=ch.pick(LIMITS, "factory-maxFrame"))
            self.run.probe("limits-set-on-the-connection")
        cfg["override"] = bool(override)
        fac.setProtocolOptions(**opts)
        e, peer = self.build_raw(fac, is_server)
        for k, v in override.items():
            setattr(e.p, k, v)
        e.monitor = SenderMonitor("any", deflate, DeflateCodec() if deflate else None)
        self.start(e)
        self.run.log("cfg", self.kind, sorted((k, repr(v)) for k, v in cfg.items()))
        if is_server:
            self.peer.send(self.client_request_bytes(extra=ext_req))
        else:
            e.t.flush(None)
            self.fw.loop_drain(self)
            self.peer.send(self.server_response_bytes(bytes(self.peer.received), extra=ext_resp))
        chunk = self.p2e.take(len(self.p2e.buf))
        e.on_delivered(chunk)
        self.fw.deliver(self, e.t, chunk)
        self.fw.loop_drain(self)
        e.t.flush(None)
        self.check_escapes()
        if e.p._st != 3:
            raise SetupViolation("valid-handshake-did-not-open-the-connection", "")
        if deflate and e.p._perMessageCompress is None:
            raise SetupViolation("compression-not-negotiated-by-valid-handshake", "")
        self.comp = zlib.compressobj(zlib.Z_DEFAULT_COMPRESSION, zlib.DEFLATED, -15) if deflate else None
        self.base_written = e.t.written_total
        if self.mode == "recv":
            self.plan_recv()
        elif self.mode == "send":
            self.plan_send()
        else:
            self.plan_inflate()
        if self.mode in ("recv", "inflate"):
            self.local_close_planned = ch.flag("local-close", 0.15)
            self.coalesce = ch.flag("coalesce", 0.25)
            if self.coalesce:
                self.run.probe("coalesced-emission")

    def mask(self):
        return b"\x21\x43\x65\x87" if self.cfg["server"] else None

    def frame_parts(self, op, payload, fin=True, rsv=0):
        """(header octets, payload octets) of one frame."""
        raw = encode_frame(op, payload, fin=fin, rsv=rsv, mask=self.mask())
        n = len(raw) - len(payload)
        return raw[:n], raw[n:]

    def deflate(self, data):
        return (self.comp.compress(data) + self.comp.flush(zlib.Z_SYNC_FLUSH))[:-4]

    # --- recv plan ----------------------------------------------------------------------------------------
    def plan_recv(self):
        ch = self.run.ch
        M, F = self.cfg["M"], self.cfg["F"]
        nmsg = 1 + ch.choose(4, "nmsg")
        budget = 400000
        for k in range(nmsg):
            ref = ch.pick([x for x in (M, F) if x] or [1000], "ref")
            size = max(0, ref + ch.pick((-1, 0, 1, -ref, ref, 50000, 2 ** 40), "size-delta", (3, 4, 4, 1, 1, 1, 1)))
            huge = size > 2 ** 30
            nfr = 1 if huge else 1 + ch.choose(4, "nfrag")
            if huge:
                sizes = [size]
            else:
                if size > budget:
                    size = max(0, min(size, budget))
                budget -= size
                cuts = sorted(ch.choose(size + 1, "fcut") for _ in range(nfr - 1))
                if M and size > M and cuts and ch.flag("fragments-add-up-to-the-limit-exactly", 0.3):
                    # the leading fragments fill the limit to the octet: the next non-empty frame is the offender
                    cuts[ch.choose(len(cuts), "which-cut")] = M
                    cuts.sort()
                    self.run.probe("fragments-fill-the-limit-exactly")
                sizes = []
                prev = 0
                for c in cuts + [size]:
                    sizes.append(c - prev)
                    prev = c
            binary = ch.flag("binary", 0.7)
            comp = self.cfg["deflate"] and not huge and ch.flag("compressed", 0.5)
            payload = None if huge else (mk(size, k) if binary else bytes(97 + (i % 26) for i in range(size)))
            if comp:
                wire = self.deflate(payload)
                # re-split the compressed octets into the same number of frames
                n = len(wire)
                cuts = sorted(ch.choose(n + 1, "ccut") for _ in range(nfr - 1))
                sizes = []
                prev = 0
                for c in cuts + [n]:
                    sizes.append(c - prev)
                    prev = c
            else:
                wire = payload
            total = 0
            pos = 0
            ok = True
            for i, fl in enumerate(sizes):
                total += fl
                over = (M and total > M) or (F and fl > F)
                fin = i == len(sizes) - 1
                op = (2 if binary else 1) if i == 0 else 0
                rsv = 4 if (comp and i == 0) else 0
                if huge:
                    hdr = bytes([0x80 | op, (0x80 if self.cfg["server"] else 0) | 127]) + struct.pack("!Q", fl) + (self.mask() or b"")
                    pl = b"h" * 64  # a little of the (never completed) payload
                else:
                    hdr, pl = self.frame_parts(op, wire[pos:pos + fl], fin=fin, rsv=rsv)
                pos += fl
                self.script.append(("hdr", hdr, {"msg": k, "frame": i, "over": bool(over), "declared": fl}))
                self.script.append(("pay", pl, {"msg": k, "frame": i}))
                if over:
                    ok = False
                    self.run.probe("over-limit-frame-planned")
                    break
                if not fin and not huge and ch.flag("control-frame-between-fragments", 0.2):
                    # a ping or pong between two fragments (legal): the running length of the message is not its business
                    chdr, cpl = self.frame_parts(ch.pick((9, 10), "ctl-op"), b"between", fin=True, rsv=0)
                    self.script.append(("pay", chdr + cpl, {"msg": k, "frame": i, "ctl": True}))
                    self.run.probe("control-frame-inside-fragmented-message")
            if not ok:
                break
            self.expect.append((payload, binary))
            self.expect_comp.append(bool(comp))
        self.emitted = 0

    # --- send plan -----------------------------------------------------------------------------------------
    def plan_send(self):
        ch = self.run.ch
        M = self.cfg["M"]
        n = 1 + ch.choose(4, "nsend")
        for k in range(n):
            size = max(0, M + ch.pick((-1, 0, 1, 1000, M), "delta", (3, 4, 4, 1, 1)))
            if size > 300000:
                size = M + 1
            incompr = ch.flag("incompressible", 0.5)
            self.app_ops.append({"size": size, "incompr": incompr, "binary": True, "salt": k,
                                 "dnc": ch.flag("doNotCompress", 0.2), "api": ch.pick(("message", "prepared"), "api", (4, 1))})
        self.sent_ok = []

    # --- inflate plan --------------------------------------------------------------------------------------
    def plan_inflate(self):
        ch = self.run.ch
        Z = self.cfg["Z"]
        n = 2 + ch.choose(4, "nmsg")
        for k in range(n):
            size = max(0, Z + ch.pick((-1, 0, 1, 10 * Z, 11, -Z, 1 + ch.choose(300, "delta-any")), "delta", (2, 3, 4, 3, 2, 1, 3)))
            if size > 200000:
                size = Z + 1
            payload = (b"%d:" % k) + mk(size, k)[:max(0, size - 2 - len(str(k)) + 1)]
            payload = payload[:size] if size else b""
            if ch.flag("one-octet-run", 0.3):
                # the most compressible payload there is: the limit then falls inside one long match of the deflate stream
                payload = bytes([ch.pick((2, 0xDD, 0x52, 0x61), "run-octet")]) * size
                self.run.probe("payload-is-one-long-run")
            wire = self.deflate(payload)
            hdr, pl = self.frame_parts(2, wire, fin=True, rsv=4)
            self.script.append(("hdr", hdr, {"msg": k, "frame": 0, "over": False, "declared": len(wire)}))
            self.script.append(("pay", pl, {"msg": k, "frame": 0}))
            self.expect.append((payload, True))
        self.emitted = 0
        self.own_refused_left = (1 + ch.choose(2, "own-over-limit-sends")) if self.cfg["M"] else 0

    # --- actions ------------------------------------------------------------------------------------------------
    def extra_actions(self):
        acts = []
        if self.mode in ("recv", "inflate"):
            if self.emitted < len(self.script) and (not self.p2e.buf or self.coalesce):
                # next piece only once the previous one was consumed: header-only delivery
                # (unless this run coalesces: then several frames / messages may be in flight at once)
                acts.append((5.0, "emit", self.emit))
            if self.local_close_planned and not self.local_closed and self.e.p._st == 3:
                acts.append((1.0, "app-close", self.app_close))
            if getattr(self, "own_refused_left", 0) and self.e.p._st == 3:
                acts.append((2.5, "app-over-limit-send", lambda: self.fw.call(self, self.own_over_limit_send)))
        else:
            if self.app_ops and self.e.p._st == 3:
                acts.append((5.0, "app-send", lambda: self.fw.call(self, self.do_send)))
        return acts

    def app_close(self):
        """the application starts its own closing handshake while the peer is still sending: the limits stay in force"""
        self.local_closed = True
        self.run.fault("local-close-in-flight")
        self.run.log("app", "sendClose", 1000)
        self.fw.call(self, self.e.p.sendClose, 1000)

    def own_over_limit_send(self):
        """(inflate mode with a message size limit as well) the application's own send is refused for its size: that
        is the sending direction's business and changes nothing for what the peer sends"""
        import random
        from autobahn.exception import PayloadExceededError
        self.own_refused_left -= 1
        e = self.e
        payload = random.Random(self.own_refused_left).randbytes(self.cfg["M"] + 700)
        w0 = e.t.written_total
        self.run.log("app", "over-limit-send", len(payload))
        try:
            e.p.sendMessage(payload, True)
        except PayloadExceededError:
            self.run.probe("own-send-refused-while-receiving")
            if e.t.written_total - w0 + len(e.p.send_queue):
                self.run.violate("C16.send-refused", "refused-but-wrote", "%d octets" % (e.t.written_total - w0))
        except Exception as ex:  # noqa
            self.run.violate("C16.send-refused", "unexpected-exception:%s" % type(ex).__name__, repr(ex))
        else:
            self.run.violate("C16.send-refused", "over-limit-send-accepted", "size %d limit %d" % (len(payload), self.cfg["M"]))

    def emit(self):
        kind, data, meta = self.script[self.emitted]
        self.emitted += 1
        self.run.log("emit", kind, meta.get("msg"), meta.get("frame"), len(data))
        if kind == "hdr":
            self.cur_hdr = meta
            meta["delivered_before"] = len(self.got())
        if not data:
            return
        if self.peer.closed or self.e.t.is_gone():
            return
        self.peer.send(data)
        if kind == "hdr" and meta["over"]:
            self.offender = meta
            self.offender_armed = True

    def do_send(self):
        op = self.app_ops.pop(0)
        e = self.e
        M = self.cfg["M"]
        import random
        payload = random.Random(op["salt"]).randbytes(op["size"]) if op["incompr"] else mk(op["size"], op["salt"])
        w0 = e.t.written_total
        a0 = len(e.monitor.parser.frames) + len(e.monitor.parser.buf)
        compressing = self.cfg["deflate"] and not op["dnc"]
        self.run.log("app", "send", op["api"], op["size"], compressing)
        from autobahn.exception import PayloadExceededError
        raised = None
        try:
            if op["api"] == "prepared":
                fac = e.p.factory
                e.p.sendPreparedMessage(fac.prepareMessage(payload, True, doNotCompress=op["dnc"]))
            else:
                e.p.sendMessage(payload, True, doNotCompress=op["dnc"])
        except PayloadExceededError as ex:
            raised = ex
        except Exception as ex:  # noqa
            self.run.violate("C16.send-refused", "unexpected-exception:%s" % type(ex).__name__, repr(ex))
            return
        wrote = e.t.written_total - w0 + len(e.p.send_queue)
        over_plain = len(payload) > M
        if raised is not None:
            self.run.probe("send-refused")
            if wrote:
                self.run.violate("C16.send-refused", "refused-but-wrote", "%d octets" % wrote)
            if not over_plain and not compressing:
                self.run.violate("C16.send-refused", "refused-within-limit", "size %d limit %d" % (len(payload), M))
        else:
            if over_plain and not compressing and op["api"] == "message":
                self.run.violate("C16.send-refused", "over-limit-send-accepted", "size %d limit %d" % (len(payload), M))
            if op["api"] == "message" or True:
                self.sent_ok.append(payload)

    # --- oracles -------------------------------------------------------------------------------------------------
    def got(self):
        return [(ev[1], ev[2]) for ev in self.e.events if ev[0] == "onMessage"]

    def failed_now(self):
        """Has the endpoint failed the connection (close frame 1009 written, or transport dropped)?"""
        e = self.e
        m = e.monitor
        if self.local_closed:
            # our close frame (1000) is already out: the only way left to fail the connection is to drop it
            return "drop" if self.fw_dropped() else None
        if m.close_count:
            return "close:%s" % (m.close_sent[0],)
        if self.fw_dropped():
            return "drop"
        return None

    def fw_dropped(self):
        t = self.e.t
        return bool(getattr(t, "aborting", False) or getattr(t, "disconnecting", False) or getattr(t, "_closing", False)
                    or t.is_gone())

    def check_step(self):
        self.check_escapes()
        run = self.run
        e = self.e
        got = self.got()
        M = self.cfg.get("M", 0)
        if self.mode == "recv":
            for i, (pl, b) in enumerate(got):
                # (for compressed messages the frame/message limits bound the wire octets; the
                # decompressed size is the business of the decompression limit, mode "inflate")
                if M and len(pl) > M and not (i < len(self.expect_comp) and self.expect_comp[i]):
                    run.violate("C16.never-over-limit", "delivered-over-limit", "%d > %d" % (len(pl), M))
            exp = self.expect
            if len(got) > len(exp) or got != exp[:len(got)]:
                if not getattr(self, "_rep", False):
                    self._rep = True
                    k = len(got) - 1
                    for i, (g, x) in enumerate(zip(got, exp)):
                        if g != x:
                            k = i
                            break
                    what = "extra-delivery" if k >= len(exp) else (
                        "truncated" if exp[k][0].startswith(got[k][0]) else "altered")
                    run.violate("C16.at-or-below-unaffected", what, "delivery #%d" % k)
            # early verdict: the offending header has been delivered completely, its payload not at all
            if self.offender is not None and getattr(self, "offender_armed", False) and not self.p2e.buf \
                    and not self.fw.loop_actions(self):
                self.offender_armed = False
                verdict = self.failed_now()
                run.probe("header-only-delivery")
                if verdict is None:
                    run.violate("C16.early-1009", "no-verdict-after-header", "declared %d, M=%s F=%s" % (
                        self.offender["declared"], self.cfg["M"], self.cfg["F"]))
                elif self.cfg["failByDrop"] or self.local_closed:
                    if verdict != "drop":
                        run.violate("C16.early-1009", "failByDrop-but-" + verdict, "")
                elif verdict != "close:1009":
                    run.violate("C16.early-1009", "wrong-verdict:" + verdict, "")
        elif self.mode == "inflate":
            exp = self.expect
            Z = self.cfg["Z"]
            for i, g in enumerate(got):
                if i >= len(exp):
                    run.violate("C16.no-truncation", "extra-delivery", "")
                    break
                if g != exp[i]:
                    # allowed only if ... never: a delivered message must be exactly what was sent
                    if not getattr(self, "_rep", False):
                        self._rep = True
                        what = "truncated" if exp[i][0].startswith(g[0]) else "altered"
                        run.violate("C16.no-truncation", "%s:%s" % (what, "over" if len(exp[i][0]) > Z else "within"),
                                    "message #%d: delivered %d octets, sent %d, limit %d" % (i, len(g[0]), len(exp[i][0]), Z))
                    break

    def on_escape(self, ep, where, exc):
        from worlds.ws import exc_site
        if self.mode == "inflate":
            self.run.violate("C16.no-truncation", "later-message-raises:%s:%s" % (type(exc).__name__, exc_site(exc)), repr(exc))
        else:
            WsWorld.on_escape(self, ep, where, exc)

    def drain(self):
        if self.mode in ("recv", "inflate"):
            guard = 0
            while self.emitted < len(self.script) and guard < 200 and not self.run.fatal:
                guard += 1
                WsWorld.drain(self)
                if self.peer.closed or self.e.t.is_gone():
                    break
                self.emit()
                self.check_step()
        elif self.mode == "send":
            while self.app_ops and self.e.p._st == 3:
                self.fw.call(self, self.do_send)
        WsWorld.drain(self)

    def final(self):
        run = self.run
        self.check_step()
        e = self.e
        got = self.got()
        if self.local_closed:
            run.probe("local-close-in-flight")
            return  # safety clauses were checked at every step; completeness is not demanded of a closing connection
        if self.mode == "recv":
            if self.offender is None:
                if got != self.expect:
                    run.violate("C16.at-or-below-unaffected", "missing-delivery", "%d of %d" % (len(got), len(self.expect)))
                if e.monitor.close_count or e.closed_cb is not None:
                    run.violate("C16.at-or-below-unaffected", "failed-within-limits", repr(e.monitor.close_sent))
            else:
                if len(got) < self.offender["delivered_before"]:
                    run.violate("C16.at-or-below-unaffected", "missing-delivery-before-offender", "")
        elif self.mode == "inflate":
            Z = self.cfg["Z"]
            # messages within the limit that precede the first over-limit one must all arrive
            k = 0
            while k < len(self.expect) and len(self.expect[k][0]) <= Z:
                k += 1
            if got[:k] != self.expect[:k]:
                if not getattr(self, "_rep", False):
                    run.violate("C16.no-truncation", "within-limit-message-lost", "%d of %d" % (len(got), k))
            if k < len(self.expect):
                run.probe("over-limit-compressed-message")
                # after it: either the connection was failed, or everything later is intact (checked stepwise)
                if not e.monitor.close_count and e.closed_cb is None and len(got) != len(self.expect):
                    run.violate("C16.no-truncation", "messages-lost-after-over-limit", "%d of %d" % (len(got), len(self.expect)))
        else:
            # everything accepted must be on the wire intact
            wire = [d for d, b, c, n in e.monitor.messages]
            if wire != self.sent_ok:
                run.violate("C16.send-refused", "accepted-send-not-on-wire-intact", "%d vs %d" % (len(wire), len(self.sent_ok)))

    def nontrivial(self):
        return bool(self.script) or bool(self.run.probes.get("send-refused"))
