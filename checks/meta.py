"""
Static metadata per claimed property, read by the driver (which imports no framework).
budgets: tier -> (total max runs, wall seconds for the search phase)
variants: worker flavours (framework, AUTOBAHN_USE_NVX) the batch is spread over
"""

ALL_VARIANTS = [("tx", "1"), ("aio", "1"), ("tx", "0"), ("aio", "0")]
TX_ONLY = [("tx", "1"), ("tx", "0")]

REAL_WS = ["autobahn.websocket.protocol (frame codec, handshakes, close/timeout logic)",
           "autobahn.twisted.websocket / autobahn.asyncio.websocket adapters",
           "autobahn.websocket.utf8validator + xormasker (NVX and pure Python, per worker)",
           "autobahn.websocket.compress_* (when negotiated)",
           "txaio (futures, call_later, batched timers)",
           "Twisted Deferred/Protocol machinery; asyncio Future/Task/BaseEventLoop callback machinery"]
STUB_WS = ["TCP/socket: sim link (two FIFO octet pipes with segmentation, stall, FIN, RST)",
           "reactor / selector I/O dispatch: SimReactor (task.Clock) / SimLoop selector phase",
           "wall clock, os.urandom, random: seeded shims on module attributes"]

META = {
    "C05": {
        "title": "WebSocket connections close exactly once, in order, and in bounded time",
        "budgets": {"quick": (60000, 55), "thorough": (4000000, 900)},
        "variants": ALL_VARIANTS,
        "rule": ("one run = one seeded schedule over {flush, segmented delivery, FIN, RST, timer tick / partial clock "
                 "advance, local sendClose variants / send / ping / synced+chopped writes / app drop, peer close frames "
                 "(valid, empty, every invalid class), peer data/ping/violation, peer FIN/RST, stall}, in raw-peer "
                 "(server and client role) and pair worlds, drawn failByDrop/echo/timeouts/auto-ping; non-trivial = "
                 "the endpoint entered CLOSING or got onClose; distinct = distinct hash of the sequence of "
                 "(action kind, protocol states) pairs"),
        "real": REAL_WS,
        "stub": STUB_WS + ["remote endpoint in raw-peer worlds: scripted octet-level peer"],
        "design_ref": "DESIGN.md section 4, C05",
    },
}
