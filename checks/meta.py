"""
Static metadata per claimed property, read by the driver (which imports no framework).
budgets: tier -> (total max runs, wall seconds for the search phase)
variants: worker flavours (framework, AUTOBAHN_USE_NVX) the batch is spread over
"""

ALL_VARIANTS = [("tx", "1"), ("aio", "1"), ("tx", "0"), ("aio", "0")]
TX_ONLY = [("tx", "1"), ("tx", "0")]

REAL_WS = ["autobahn.websocket.protocol (frame codec, handshakes, close/timeout logic)",
           "autobahn.twisted.websocket / autobahn.asyncio.websocket adapters",
           "autobahn.websocket.utf8validator + xormasker (NVX and pure Python, per worker)",
           "autobahn.websocket.compress_* (when negotiated)",
           "txaio (futures, call_later, batched timers)",
           "Twisted Deferred/Protocol machinery; asyncio Future/Task/BaseEventLoop callback machinery"]
STUB_WS = ["TCP/socket: sim link (two FIFO octet pipes with segmentation, stall, FIN, RST)",
           "reactor / selector I/O dispatch: SimReactor (task.Clock) / SimLoop selector phase",
           "wall clock, os.urandom, random: seeded shims on module attributes"]

REAL_WAMP = ["autobahn.wamp.protocol (ApplicationSession / Session state machine, request tables, dispatch)",
             "autobahn.wamp.message + autobahn.wamp.serializer (JSON, CBOR, MsgPack, UBJSON): real marshal/serialize/unserialize/parse round trip in both directions",
             "autobahn.wamp.request, types, exception, uri", "autobahn.twisted.wamp / autobahn.asyncio.wamp session classes",
             "txaio, Twisted Deferred / asyncio Future+Task machinery"]
STUB_WAMP = ["WAMP transport: StubTransport (ITransport) - send() round-trips through the real serializer; close()/abort() start closing, onClose arrives later",
             "WAMP router: scripted broker/dealer speaking through the library's message classes (trusted base)",
             "reactor / event loop I/O: SimReactor / SimLoop", "randomness / wall clock: seeded shims"]

REAL_STACK = ["autobahn.wamp.websocket + autobahn.{twisted,asyncio}.websocket WAMP-over-WebSocket transports (client and server) on the real WebSocket engine",
              "autobahn.twisted.rawsocket / autobahn.asyncio.rawsocket WAMP-over-RawSocket transports (client and server), Twisted Int32StringReceiver",
              "autobahn.wamp.serializer + message (all four serializers)", "txaio, Twisted / asyncio callback machinery"]
STUB_STACK = ["TCP link, reactor/selector, randomness: as for the WebSocket worlds", "sessions on top of the transports: recording stubs (ITransportHandler)",
              "scripted octet-level peer in handshake / limit / corruption modes"]

META = {
    "C01": {
        "title": "WebSocket messages arrive intact, exactly once and in order",
        "budgets": {"quick": (120000, 60), "thorough": (3000000, 1200)},
        "variants": ALL_VARIANTS,
        "rule": ("one run = real client <-> real server with drawn options (autoFragmentSize, applyMask, mask policies, "
                 "utf8 validation, permessage-deflate, subprotocols/headers), a drawn plan of up to 8 sends per side over "
                 "the message / frame / streaming / prepared / low-level chopped APIs with lengths from "
                 "{0,1,125,126,127,65535,65536,65537,2^17+3,...}, sync writes and pings, some issued inside onOpen; the "
                 "whole conversation incl. the opening handshake is delivered under a seeded segmentation (and, in 'cut' "
                 "mode, a connection cut); non-trivial = at least one message delivered and at least one delivery split a "
                 "buffered stream; distinct = hash of the (action kind, protocol states) sequence"),
        "real": REAL_WS,
        "stub": STUB_WS,
        "design_ref": "DESIGN.md section 4, C01",
    },
    "C02": {
        "title": "Incoming byte streams are judged exactly as RFC 6455 prescribes",
        "budgets": {"quick": (600000, 60), "thorough": (8000000, 1500)},
        "variants": ALL_VARIANTS,
        "rule": ("batch prefix: the first two header octets walk all 65536 values (quick tier: a 4096-value stride sample) "
                 "in each of 16 receiver contexts (role x inside/outside fragmented message x compression x failByDrop), "
                 "each completed with a minimal consistent tail and a trailing ping; then generated streams of up to 10 "
                 "frames from a grammar of valid and near-valid frames (17 violation classes, close-frame variants, "
                 "compressed and fragmented messages, truncated tails). Every stream is judged by the independent "
                 "reference receiver and delivered under a seeded segmentation; non-trivial = stream non-empty and at "
                 "least one delivery split the buffered stream; distinct = hash of the (action kind, emitted octets, state) sequence"
                 ' Rounds 10-12: automatic pings of our own outstanding while the stream is judged; the header sweep is interleaved one to one with generated streams.'),
        "real": REAL_WS,
        "stub": STUB_WS + ["remote endpoint: scripted octet-level peer", "oracle: sim/ref_ws.judge_stream reference receiver"],
        "design_ref": "DESIGN.md section 4, C02",
    },
    "C05": {
        "title": "WebSocket connections close exactly once, in order, and in bounded time",
        "budgets": {"quick": (600000, 55), "thorough": (6000000, 900)},
        "variants": ALL_VARIANTS,
        "rule": ("one run = one seeded schedule over {flush, segmented delivery, FIN, RST, timer tick / partial clock "
                 "advance, local sendClose variants / send / ping / synced+chopped writes / app drop, peer close frames "
                 "(valid, empty, every invalid class), peer data/ping/violation, peer FIN/RST, stall}, in raw-peer "
                 "(server and client role) and pair worlds, drawn failByDrop/echo/timeouts/auto-ping; non-trivial = "
                 "the endpoint entered CLOSING or got onClose; distinct = distinct hash of the sequence of "
                 "(action kind, protocol states) pairs"
                 ' Rounds 10-12: application operations from inside onClose(); a frame-API message begun while open and ended later.'),
        "real": REAL_WS,
        "stub": STUB_WS + ["remote endpoint in raw-peer worlds: scripted octet-level peer"],
        "design_ref": "DESIGN.md section 4, C05",
    },
    "C17": {
        "title": "Silent peers are dropped on time, responsive peers never",
        "budgets": {"quick": (320000, 60), "thorough": (4000000, 1200)},
        "variants": ALL_VARIANTS,
        "rule": ("one run = one virtual time line: drawn role, open/close/server-drop timeouts, auto-ping interval/"
                 "timeout/size/restart-on-traffic, fractional connection start (timer flooring); each peer reaction "
                 "(handshake remainder, pong or data after each auto-ping, close reply, TCP drop) is placed at "
                 "deadline+delta, delta in {never,-2,-1.001,-1,-0.5,-0.001,0,+0.001,+1}; library timers and peer events "
                 "run in virtual-time order, ties decided by the scheduler; optional wall-clock jumps; then 1000 quiet "
                 "seconds after close; non-trivial = at least one deadline armed; distinct = hash of the "
                 "(event kind, state, virtual time) sequence"
                 ' Round 11: empty data frames as traffic.'),
        "real": REAL_WS,
        "stub": STUB_WS + ["remote endpoint: scripted octet-level peer on the virtual time line"],
        "design_ref": "DESIGN.md section 4, C17",
    },
    "C16": {
        "title": "Configured payload limits are enforced early and never by truncation",
        "budgets": {"quick": (220000, 60), "thorough": (4000000, 1200)},
        "variants": ALL_VARIANTS,
        "rule": ("three modes: recv (peer sends messages at limit-1/limit/limit+1/far beyond the drawn frame and message "
                 "limits, spread over 1..4 fragments, optionally compressed; every frame header is delivered before and "
                 "separately from its payload - header-only delivery - under a seeded segmentation), send (application "
                 "sends at M-1/M/M+1 with and without compression, message and prepared API) and inflate (deflate with a "
                 "decompression limit Z, messages at Z-1/Z/Z+1/10Z followed by further messages); non-trivial = a peer "
                 "script or a refused send exists; distinct = hash of the (action kind, state) sequence"
                 ' Rounds 10-11: limits and failByDrop set on the connection instead of the factory; arbitrary decompression limits, overshoots of 1-300 octets, one-octet runs.'),
        "real": REAL_WS,
        "stub": STUB_WS + ["remote endpoint: scripted octet-level peer"],
        "design_ref": "DESIGN.md section 4, C16",
    },
    "C07": {
        "title": "The opening handshake admits exactly the valid peers and never crashes",
        "budgets": {"quick": (600000, 60), "thorough": (5000000, 1200)},
        "variants": ALL_VARIANTS,
        "rule": ("three modes: pair (real client <-> real server over spec versions 10-18 x server versions, subprotocol "
                 "lists and selection policies, str/list headers, origin vs allow-list, user-agent/server strings, "
                 "compression offers, 6 URL shapes), server (scripted client: valid baseline request + exactly one of 33 "
                 "mutations of known verdict, or arbitrary octets; server options: versions, origin allow-list, null "
                 "origin, connection limit, external port, status page) and client (scripted server: 24 response "
                 "mutations); all under a seeded segmentation; non-trivial = at least one delivery split the buffered "
                 "stream; distinct = hash of the (action kind, mutation, state) sequence"
                 ' Rounds 10-11: maxConnections changed or lifted while connections exist (a connection is judged by the limit in force when it was accepted); a server application naming a subprotocol the client never offered.'),
        "real": REAL_WS,
        "stub": STUB_WS + ["remote endpoint in server/client modes: scripted HTTP peer with by-construction verdicts"],
        "design_ref": "DESIGN.md section 4, C07",
    },
    "C12": {
        "title": "Per-message compression is lossless and negotiated soundly",
        "budgets": {"quick": (60000, 70), "thorough": (1500000, 1500)},
        "variants": ALL_VARIANTS,
        "rule": ("6 of 8 runs: pair world with a PMCE negotiated from a drawn point of the permessage-deflate lattice "
                 "(offer: accept/request no_context_takeover and max_window_bits 0,9..15; offer-accept: request_*, "
                 "no_context_takeover / window_bits overrides, mem_level; response-accept overrides) or bzip2 or brotli "
                 "(snappy is not installed), up to 7 messages per direction (text / repeat-earlier-content / random, "
                 "0..70000 octets, doNotCompress, auto+explicit fragmentation, frame API, prepared) under a seeded "
                 "segmentation; 1 of 8: hostile 101 responses (unknown/repeated/duplicated/ill-parameterised/declined "
                 "extension); 1 of 8: compressed control frames and RSV1 continuation frames among other traffic with "
                 "compression on; non-trivial = negotiated and >= 2 messages delivered (pair) / split delivery (others); "
                 "distinct = hash of (configuration, action kind, state) sequence"
                 ' Round 11: an earlier connection of the process with the default deflate parameters before the judged one.'),
        "real": REAL_WS,
        "stub": STUB_WS + ["wire monitor decompressors: zlib / bz2 / brotli used directly"],
        "design_ref": "DESIGN.md section 4, C12",
    },
    "C04": {
        "title": "Each WAMP request completes exactly once with its own reply",
        "budgets": {"quick": (400000, 60), "thorough": (6000000, 1200)},
        "variants": ALL_VARIANTS,
        "rule": ("one run = joined session, up to 14 API operations (call / publish / subscribe / register / unsubscribe "
                 "/ unregister / cancel with 8 payload shapes and all option classes) interleaved with router actions: "
                 "answer any outstanding request (success, error, progressive results), adversarial replies (duplicate, "
                 "unknown id, wrong type, wrong error type, PUBLISHED for unacknowledged publish, EVENT for unknown id, "
                 "handshake message after join), EVENT/INVOCATION pushes, transport loss (cut mode); id generator "
                 "started near 2^53 in some runs; non-trivial = at least 2 requests answered; distinct = hash of "
                 "(action kind, session state) sequence"
                 " Rounds 10-12: an application exception class define()d for an error URI; a 'join' listener issuing the first request; register(obj) with decorated endpoints and mixed options."),
        "real": REAL_WAMP,
        "stub": STUB_WAMP,
        "design_ref": "DESIGN.md section 4, C04",
    },
    "C11": {
        "title": "Events reach exactly the handlers subscribed at that moment",
        "budgets": {"quick": (160000, 60), "thorough": (4000000, 1200)},
        "variants": ALL_VARIANTS,
        "rule": ("one run = joined session, up to 17 operations: subscribe (3 topics, plain callables sync/async, "
                 "raising, self-/next-/previous-unsubscribing handlers, details_arg, decorated objects), unsubscribe, "
                 "router SUBSCRIBED (shared id per topic) / ERROR / UNSUBSCRIBED in any order, EVENTs for live ids, for "
                 "ids in the unsubscribe race window and for ids never held; non-trivial = at least one event invoked "
                 "a handler; distinct = hash of (action kind, session state) sequence"
                 ' Rounds 10-11: the application acts on its subscribe() result at once (handler swap, immediate unsubscribe); an UNSUBSCRIBE the router refuses.'),
        "real": REAL_WAMP,
        "stub": STUB_WAMP,
        "design_ref": "DESIGN.md section 4, C11",
    },
    "C06": {
        "title": "WAMP sessions end cleanly on every path and leave nothing pending",
        "budgets": {"quick": (600000, 60), "thorough": (6000000, 1200)},
        "variants": ALL_VARIANTS,
        "rule": ("one run = one session class (ApplicationSession, the same with overrides that call up, new-API "
                 "Session), a router that follows the session state machine (0-2 CHALLENGEs, WELCOME or ABORT, GOODBYE "
                 "from either side, GOODBYE in the same segment as WELCOME) plus at most one illegal message, local "
                 "leave()/disconnect()/call/publish/subscribe/register at any point, every user callback and listener "
                 "drawn to return / raise / stay pending (resolved or failed later by the scheduler), close()/abort() "
                 "completing later, transport loss at any step (cut mode), API calls after the end; non-trivial = "
                 "joined, aborted or ended; distinct = hash of (action kind, session state) sequence"
                 " Rounds 11-12: mode 'rejoin' (every sixth run): two or three sessions one after the other on one transport, each judged on its own; messages arriving after the session has ended."),
        "real": REAL_WAMP,
        "stub": STUB_WAMP,
        "design_ref": "DESIGN.md section 4, C06",
    },
    "C13": {
        "title": "WAMP transports attach a session only after valid negotiation and fail closed",
        "budgets": {"quick": (500000, 70), "thorough": (3000000, 1800)},
        "variants": ALL_VARIANTS,
        "rule": ("batch prefix: RawSocket handshake octets 1-2 walk all 65536 values (quick tier: 4096-value sample, dense "
                 "around the magic octet) against a real server and a real client endpoint, reserved octets and short / "
                 "over-long handshakes drawn, seeded segmentation; then per 12 runs: 2x cross-framework pairing (the local "
                 "real endpoint against the real endpoint of the other framework hosted in a helper interpreter, both roles, "
                 "RawSocket and WebSocket, handshake plus traffic both ways under this worker's segmentation), 2x WebSocket subprotocol "
                 "negotiation over drawn pairs of serializer lists (subsets, orders, batched), 3x traffic (real transport "
                 "pair, stub sessions, up to 8 messages per direction out of all 25 message types, sizes around the "
                 "negotiated limits), 1x RawSocket length limits vs a raw peer announcing every exponent and sending an "
                 "over-long frame prefix, 2x corruption (flipped frame type, garbage, truncated, non-list, unknown type, "
                 "out-of-phase, session raising in onOpen/onMessage), 2x generated handshakes; non-trivial = at least "
                 "2 scheduler steps; distinct = hash of (action kind, endpoint state) sequence"),
        "real": REAL_STACK + ["cross-framework mode: the remote endpoint is the real transport of the other framework (Twisted <-> asyncio) "
                              "in a helper interpreter stepped by the simulator (sim/xpeer.py)"],
        "stub": STUB_STACK,
        "design_ref": "DESIGN.md section 4, C13",
    },
    "C10": {
        "title": "Every invocation gets exactly one terminal reply",
        "budgets": {"quick": (120000, 70), "thorough": (2500000, 1800)},
        "variants": ALL_VARIANTS,
        "rule": ("one run = a real ApplicationSession (callee) on the real client transport (WebSocket or RawSocket) "
                 "joined over a simulated link to the library's real server transport carrying a scripted dealer; small "
                 "size limits; up to 9 INVOCATIONs on two registered endpoints (plain / with call details), each with a "
                 "drawn behaviour out of 13 (value, None, CallResult, un-serializable, oversized, ApplicationError, "
                 "mapped / unmapped exception, error with un-serializable args, pending result resolved / failed / never, "
                 "progress then value), several outstanding at once, INTERRUPTs at any point, seeded segmentation of "
                 "both byte streams; non-trivial = at least one invocation; distinct = hash of (action kind, transport "
                 "state) sequence"
                 ' Round 10: permessage-deflate on the WebSocket transports with incompressible oversized results; a transport that goes down without an injected fault is a violation.'),
        "real": REAL_STACK + ["autobahn.wamp.protocol ApplicationSession (callee side)"],
        "stub": ["TCP link, reactor/selector, randomness: as for the WebSocket worlds", "dealer: scripted session on the real server transport"],
        "design_ref": "DESIGN.md section 4, C10",
    },
    "C18": {
        "title": "Remote exceptions arrive with their URI, arguments and class",
        "budgets": {"quick": (240000, 60), "thorough": (3000000, 1200)},
        "variants": ALL_VARIANTS,
        "level_text": ("seeded search; the mapping itself is a pair of pure functions - what the simulation adds is the "
                       "two-party, concurrent setting (several calls in flight, different registries and serializers on "
                       "the two sessions, errors forwarded late and out of order); a clean batch is evidence, not proof"),
        "rule": ("one run = two real sessions (callee, caller) with drawn exception registries (decorated, define()d, "
                 "undefined, constructors incompatible with the carried arguments, a URI mapped to a different class on "
                 "the caller), drawn serializers per side, traceback forwarding on/off, 2-7 calls whose endpoint raises "
                 "one of 9 exception shapes with 4 argument lists; the scripted dealer routes CALL->INVOCATION and "
                 "forwards the ERRORs late and in any order; non-trivial = at least one error forwarded; distinct = hash "
                 "of (action kind, per-side state) sequence"
                 ' Rounds 10-11: definitions the library refuses; traceback forwarding switched while the session is in use.'),
        "real": REAL_WAMP,
        "stub": STUB_WAMP,
        "design_ref": "DESIGN.md section 4, C18",
    },
    "C20": {
        "title": "End-to-end encrypted payloads are recovered exactly or rejected",
        "budgets": {"quick": (180000, 60), "thorough": (2500000, 1200)},
        "variants": ALL_VARIANTS,
        "rule": ("batch prefix: every single-octet alteration (positions 0..119) of the ciphertext in each of the four "
                 "payload directions (event, invocation, result, error); then generated runs: two real sessions with "
                 "cryptobox KeyRings in 5 layouts (default key, per-prefix key, prefix+default, originator-only / "
                 "responder-only keys, responder holding a wrong key), 2-7 publishes / calls on covered and uncovered "
                 "URIs, endpoints returning or raising, the router forwarding in any order and tampering per direction "
                 "(flip an octet, substitute a genuine ciphertext of another URI, re-label the envelope URI); "
                 "nacl nonce generation seeded; non-trivial = at least one operation; distinct = hash of (action kind, "
                 "per-side state) sequence"
                 ' Rounds 10-12: two handlers per subscription and handlers modifying nested payloads in place; re-keying with a malformed key; tampered progressive results.'),
        "real": REAL_WAMP + ["autobahn.wamp.cryptobox KeyRing/Key on PyNaCl"],
        "stub": STUB_WAMP,
        "design_ref": "DESIGN.md section 4, C20",
    },
    "C14": {
        "title": "Components reconnect within their retry budget and finish exactly once",
        "budgets": {"quick": (120000, 70), "thorough": (1500000, 1800)},
        "variants": ALL_VARIANTS,
        "rule": ("one run = a real Component with 1-3 transports (websocket / rawsocket, real client stacks), drawn "
                 "max_retries in {0,1,2,3,-1}, initial delay, growth, jitter, maximum delay, is_fatal classifier, main in "
                 "{none, returns, raises, pending, returns later / fails late}; every connection attempt gets a drawn "
                 "outcome out of 8 (refused, connect timeout, transport handshake fails, ABORT, joined then cut, joined "
                 "then GOODBYE normal / system_shutdown, joined and staying) played by the real server stack with a "
                 "scripted router over the simulated link; stop() at any point in 30% of the runs; retry sleeps run on "
                 "virtual time (up to 4000 s per run); non-trivial = at least 2 connection attempts; distinct = hash of "
                 "(action kind, attempt outcomes, component state) sequence"
                 ' Round 11: stop() on the idle component before start().'),
        "real": REAL_STACK + ["autobahn.wamp.component + autobahn.{twisted,asyncio}.component (retry loop, per-connection futures)",
                              "autobahn.wamp.protocol new-API Session"],
        "stub": ["connection establishment: SimEndpoint (IStreamClientEndpoint) / SimLoop.create_connection", "router: scripted session on the real server transports",
                 "TCP link, reactor/selector, randomness (retry jitter seeded)"],
        "design_ref": "DESIGN.md section 4, C14",
    },
}
