"""
C17 - silent peers are dropped on time, responsive peers never.

Raw-peer world on a virtual time line.  Every peer reaction (rest of the opening handshake,
pong or data after an auto-ping, close reply, TCP drop after the closing handshake) is placed
at  deadline + delta,  delta in {never, -2, -1.001, -1, -0.5, -0.001, 0, +0.001, +1}; library
timers and peer events are executed in virtual-time order (ties: scheduler's choice).
"""

import heapq
import struct

from sim.ref_ws import SenderMonitor, encode_frame
from sim.seams import SEAMS
from worlds.ws import WsWorld, ws_classes

PROP = "C17"
MAX_STEPS = 400

DELTAS = [None, -2.0, -1.001, -1.0, -0.5, -0.001, 0.0, 0.001, 1.0]
DELTA_W = [2, 3, 2, 2, 1.5, 1.5, 1, 1.5, 1.5]
EPS = 1e-6

CLOSE_FACTS = ("wasClean", "wasNotCleanReason", "droppedByMe", "closedByMe", "remoteCloseCode", "remoteCloseReason",
               "localCloseCode", "localCloseReason", "wasMaxFramePayloadSizeExceeded", "wasMaxMessagePayloadSizeExceeded")

CAUSE = {
    "open": "WebSocket opening handshake timeout",
    "close": "peer did not finish the closing handshake in time",
    "tcpdrop": "server did not drop TCP connection in time",
    "ping": "WebSocket ping timeout",
}


class World(WsWorld):
    PROP = PROP

    def __init__(self, run, mode=None):
        WsWorld.__init__(self, run)
        self.pq = []  # peer events: (time, seq, name, fn)
        self.seq = 0
        self.deadlines = []  # dict(name, armed, timeout, reaction) reaction = time or None(never) or "pending"
        self.pings_seen = []  # (time, payload)
        self.phase_done = False
        self.after_close_checked = False
        self.ping_policy = []
        self.t_open = None
        self.peer_sent_close = False

    # --- helpers -------------------------------------------------------------------------------------
    def at(self, t, name, fn):
        t = max(t, self.now())
        self.seq += 1
        heapq.heappush(self.pq, (t, self.seq, name, fn))

    def draw_delta(self, label):
        return self.run.ch.pick(DELTAS, label, DELTA_W)

    def mask(self):
        return b"\x0a\x0b\x0c\x0d" if self.e.is_server else None

    def peer_send_now(self, data):
        """Peer emits and the octets arrive at once (the time line is what is explored here)."""
        if self.peer.closed or self.e.t.is_gone() or not self.e.t.can_read():
            return False
        self.peer.send(data)
        # every deadline whose planned reaction time has come counts as reacted-to
        now = self.now()
        for d in self.deadlines:
            r = d["reaction"]
            if r is not None and r != "pending" and r <= now + 1e-12 and "fired_at" not in d:
                d.setdefault("reacted", True)
        self.pump()
        return True

    def pump(self):
        e = self.e
        for _ in range(8):
            moved = False
            if e.t.needs_flush():
                e.t.flush(None)
                moved = True
            if self.p2e.buf and e.t.can_read():
                chunk = self.p2e.take(len(self.p2e.buf))
                e.on_delivered(chunk)
                self.fw.deliver(self, e.t, chunk)
                moved = True
            if self.fw.loop_drain(self):
                moved = True
            # zero-delay continuation timers (abort's callLater(0), queued writes)
            nt = self.fw.next_timer(self.reactor)
            while nt is not None and nt - self.now() <= 1e-12:
                self.fw.fire_next(self)
                self.fw.loop_drain(self)
                nt = self.fw.next_timer(self.reactor)
                moved = True
            if self.p2e.fin and not self.p2e.buf and not self.p2e.ended and e.t.can_read():
                self.do_fin(self.p2e, e)
                self.fw.loop_drain(self)
                moved = True
            if self.p2e.rst and not self.p2e.ended and not e.t.is_gone():
                self.do_rst(self.p2e, e)
                self.fw.loop_drain(self)
                moved = True
            if not moved:
                break
        self.scan_pings()

    # --- build -----------------------------------------------------------------------------------------
    def build(self):
        ch = self.run.ch
        t0 = ch.pick((0.0, 0.2, 0.5, 0.999, 1.0, 3.7, 10.25), "start")
        self.make_reactor(t0)
        aw, RecServer, RecClient = ws_classes()
        cfg = self.cfg = {
            "server": ch.flag("server"),
            "oht": ch.pick((5, 0, 1, 2.5), "openHandshakeTimeout", (3, 1, 2, 2)),
            "chs": ch.pick((1, 0, 0.5, 3), "closeHandshakeTimeout", (3, 1, 1.5, 2)),
            "scdt": ch.pick((1, 0, 2), "serverConnectionDropTimeout", (3, 1, 2)),
            "api": ch.pick((0, 1, 2.5, 4), "autoPingInterval", (3, 2, 2, 1)),
            "apt": ch.pick((0, 1, 3, 1.5), "autoPingTimeout", (1, 2, 2, 1)),
            "restart": ch.flag("autoPingRestartOnAnyTraffic"),
            "failByDrop": ch.flag("failByDrop"),
            "pingsize": ch.pick((12, 13, 125), "autoPingSize", (3, 1, 1)),
        }
        is_server = cfg["server"]
        self.kind = "raw-server" if is_server else "raw-client"
        opts = dict(openHandshakeTimeout=cfg["oht"], closeHandshakeTimeout=cfg["chs"], autoPingInterval=cfg["api"],
                    autoPingTimeout=cfg["apt"], autoPingRestartOnAnyTraffic=cfg["restart"], failByDrop=cfg["failByDrop"],
                    autoPingSize=cfg["pingsize"])
        if is_server:
            fac = aw.WebSocketServerFactory("ws://localhost:9000", **self.fw.factory_kw(self.reactor))
        else:
            fac = aw.WebSocketClientFactory("ws://localhost:9000", **self.fw.factory_kw(self.reactor))
            opts["serverConnectionDropTimeout"] = cfg["scdt"]
        fac.setProtocolOptions(**opts)
        self.fac = fac
        e, peer = self.build_raw(fac, is_server)
        e.monitor = SenderMonitor("any")
        self.run.log("cfg", self.kind, sorted(cfg.items()), t0)
        self.t0 = t0
        self.start(e)
        self.pump()
        # --- phase A: opening handshake
        d = self.draw_delta("delta-open") if (cfg["oht"] > 0 and ch.flag("late-handshake", 0.45)) else "now"
        if cfg["oht"] > 0:
            self.dl_open = self.arm("open", t0, cfg["oht"])
        else:
            self.dl_open = None
        split = ch.flag("split-handshake", 0.4)
        if is_server:
            hs = self.client_request_bytes()
        else:
            hs = None  # computed when sent (needs the client's key)
        self.hs_first_sent = False
        if d == "now":
            self.at(t0, "handshake", lambda: self.send_handshake(hs, 1.0))
            if self.dl_open:
                self.dl_open["reaction"] = t0
        elif d is None:
            if self.dl_open:
                self.dl_open["reaction"] = None
            if split:
                self.at(t0, "handshake-part", lambda: self.send_handshake(hs, 0.5))
        else:
            t = max(t0, t0 + cfg["oht"] + d)
            if self.dl_open:
                self.dl_open["reaction"] = t
            if split:
                self.at(t0, "handshake-part", lambda: self.send_handshake(hs, 0.5))
            self.at(t, "handshake", lambda: self.send_handshake(hs, 1.0))
        if is_server and cfg["oht"] > 0 and ch.flag("server-cannot-complete-handshake", 0.12):
            # the peer does its part in time, but the server side cannot complete the handshake: its onConnect()
            # names a subprotocol the client never offered (the library refuses that when it builds the response).
            # The opening-handshake deadline is the safety net for such a connection.
            e.hooks["on_connect"] = lambda req: "subprotocol-never-offered"
            self.dl_open["reaction"] = None
            self.run.probe("server-cannot-complete-handshake")
        if not is_server and ch.flag("client-onConnect-completes-later", 0.15):
            # the client application's onConnect() returns a result that completes later (a coroutine, a Deferred): the
            # connection is open at protocol level meanwhile - timers that come due in that window are timers like any other
            delay = ch.pick((0.0005, 0.5, 2.5, 7.0), "onConnect-delay")

            def on_connect(resp, delay=delay):
                f = self.fw.new_future(self)
                self.run.probe("client-onConnect-pending")
                self.onconnect_pending = True

                def completes():
                    self.onconnect_pending = False
                    self.fw.call(self, self.fw.resolve_future, f, None)
                    self.fw.loop_drain(self)
                    # (the open phase - pings, closing scenarios, chatter - is counted from the application's onOpen())
                    if e.p._st == 3 and not self.plan_made:
                        self.plan_open_phase()
                self.at(self.now() + delay, "onConnect-completes", completes)
                return f
            e.hooks["on_connect"] = on_connect
        self.plan_made = False
        # optional wall-clock jump (only the ping payload / RTT computation reads it)
        if ch.flag("wall-clock-jump", 0.15):
            self.at(t0 + ch.pick((0.5, 3.0, 6.0), "jump-at"), "wall-jump", self.wall_jump)

    def wall_jump(self):
        SEAMS.wall_jump_ns += self.run.ch.pick((3600, -3600, 86400 * 365), "jump") * 10**9
        self.run.fault("wall-clock-jump")

    def arm(self, name, armed, timeout):
        d = {"name": name, "armed": armed, "timeout": timeout, "deadline": armed + timeout, "reaction": "pending"}
        self.deadlines.append(d)
        self.run.log("deadline", name, round(armed, 6), timeout)
        return d

    def send_handshake(self, hs, frac):
        e = self.e
        if not e.is_server:
            # (the response needs the client's key: computed once, when first sent)
            if getattr(self, "hs_resp", None) is None:
                self.hs_resp = self.server_response_bytes(bytes(self.peer.received))
            hs = self.hs_resp
        if frac < 1.0:
            # only part of the handshake arrives now (the cut may fall anywhere, also inside the status line)
            self.hs_cut = self.run.ch.pick((len(hs) // 2, 5, 17, len(hs) - 1), "hs-cut")
            self.hs_first_sent = True
            self.run.probe("partial-handshake-then-wait")
            self.peer_send_now(hs[:self.hs_cut])
            return
        data = hs[self.hs_cut:] if self.hs_first_sent else hs
        self.peer_send_now(data)
        if self.onconnect_pending and any(ev[0] == "onOpen" for ev in e.events):
            # (the asyncio client adapter does not wait for an asynchronous onConnect(): onOpen() has fired already)
            self.onconnect_pending = False
            self.run.probe("client-onConnect-not-awaited-by-the-adapter")
        if e.p._st == 3 and not self.plan_made and not self.onconnect_pending:
            self.plan_open_phase()

    onconnect_pending = False

    # --- phase B/C planning once open --------------------------------------------------------------------------
    def plan_open_phase(self):
        ch = self.run.ch
        self.plan_made = True
        self.t_open = self.now()
        cfg = self.cfg
        # how the peer treats auto-pings: list of per-ping reactions, last one repeats
        self.ping_policy = []
        if cfg["api"]:
            n = 1 + ch.choose(4, "npolicy")
            for _ in range(n):
                kind = ch.pick(("pong-now", "pong-delta", "data-delta", "never"), "pingreact", (5, 3, 2, 1.2))
                delta = self.draw_delta("delta-ping") if kind in ("pong-delta", "data-delta") else None
                self.ping_policy.append((kind, delta))
        # closing scenario
        self.close_kind = ch.pick(("none", "local", "peer"), "closekind", (2, 4, 2))
        self.t_close = self.t_open + ch.pick((0.0, 0.3, 1.0, 2.2, 4.9, 7.5, 12.0), "t-close")
        if self.close_kind == "local":
            self.at(self.t_close, "local-close", self.local_close)
        elif self.close_kind == "peer":
            self.at(self.t_close, "peer-close", self.peer_close)
        else:
            self.at(self.t_open + ch.pick((3.0, 9.0, 20.0), "t-end"), "end", lambda: None)
        self.delta_close = self.draw_delta("delta-close")
        self.delta_drop = self.draw_delta("delta-drop")
        if cfg["api"] and ch.flag("factory-reconfigured-while-the-connection-is-open", 0.15):
            # the application changes the factory's defaults for future connections: this connection keeps the settings
            # it was made with
            new_api = ch.pick((0, cfg["api"] * 3), "factory-new-interval")

            def reconf():
                self.run.fault("factory-autoPingInterval-changed")
                self.fw.call(self, lambda: self.fac.setProtocolOptions(autoPingInterval=new_api))
            self.at(self.t_open + 0.01, "factory-reconfigured", reconf)
        # unrelated peer traffic (data frames) now and then
        if ch.flag("chatter", 0.3):
            for k in range(1 + ch.choose(3, "nchat")):
                self.at(self.t_open + ch.pick((0.1, 0.9, 1.7, 2.6, 3.3, 5.1), "t-chat"), "chatter", self.chatter)

    def chatter(self):
        if self.e.p._st == 3 and not self.peer_sent_close:
            self.peer_send_now(encode_frame(2, self.run.ch.pick((b"chat", b"", b"c" * 200), "chat-payload"), mask=self.mask()))
            self.note_traffic()

    def note_traffic(self):
        """A complete data frame reached the endpoint: with restart-on-any-traffic this counts
        as the reaction to a pending ping."""
        if self.cfg["restart"]:
            now = self.now()
            for d in self.deadlines:
                if d["name"] == "ping" and d["armed"] <= now <= d["deadline"] + EPS and "fired_at" not in d:
                    r = d["reaction"]
                    if r is None or r == "pending" or r > now:
                        d["reaction"] = now
                        d["settled"] = True

    def local_close(self):
        e = self.e
        if e.p._st != 3:
            return
        self.run.log("app", "sendClose")
        # (the deadline is recorded before the call: with a sub-second timeout the batched
        # timer may legally fire within the same instant)
        d = self.arm("close", self.now(), self.cfg["chs"]) if self.cfg["chs"] > 0 else None
        self.fw.call(self, e.p.sendClose, 1000, "bye")
        self.schedule_close_reply(d)
        self.pump()

    def schedule_close_reply(self, d):
        delta = self.delta_close
        if d is None:
            # no timer configured: peer replies after a while (or never)
            if delta is not None:
                self.at(self.now() + 1.5, "close-reply", self.close_reply)
            return
        if delta is None:
            d["reaction"] = None
            return
        t = max(self.now(), d["deadline"] + delta)
        d["reaction"] = t
        self.at(t, "close-reply", self.close_reply)

    def close_reply(self):
        e = self.e
        if e.t.is_gone():
            return
        self.peer_sent_close = True
        self.peer_send_now(encode_frame(8, struct.pack("!H", 1000), mask=self.mask()))
        self.after_both_close_frames()

    def peer_close(self):
        e = self.e
        if e.p._st != 3:
            return
        self.peer_sent_close = True
        self.peer_send_now(encode_frame(8, struct.pack("!H", 1001) + b"away", mask=self.mask()))
        self.after_both_close_frames()

    def after_both_close_frames(self):
        """Close frames went both ways: a server endpoint drops TCP itself; a client endpoint
        waits for the (scripted) server to do it within serverConnectionDropTimeout."""
        e = self.e
        if e.is_server or e.t.is_gone() or e.p._st != 2:
            return
        if e.monitor.close_count == 0:
            return
        if getattr(self, "_drop_planned", False):
            return
        self._drop_planned = True
        scdt = self.cfg["scdt"]
        delta = self.delta_drop
        if scdt > 0:
            d = self.arm("tcpdrop", self.now(), scdt)
            if delta is None:
                d["reaction"] = None
                return
            t = max(self.now(), d["deadline"] + delta)
            d["reaction"] = t
            self.at(t, "peer-tcp-drop", self.peer_tcp_drop)
        elif delta is not None:
            self.at(self.now() + 1.0, "peer-tcp-drop", self.peer_tcp_drop)

    def peer_tcp_drop(self):
        if self.peer.closed or self.e.t.is_gone():
            return
        for d in self.deadlines:
            if d["name"] == "tcpdrop" and "fired_at" not in d:
                d["reacted"] = True
        self.peer.fin()
        self.peer.closed = True
        self.pump()

    # --- auto-ping tracking --------------------------------------------------------------------------------------
    def scan_pings(self):
        m = self.e.monitor
        pings = [pl for op, pl in m.controls if op == 9]
        while len(self.pings_seen) < len(pings):
            pl = pings[len(self.pings_seen)]
            k = len(self.pings_seen)
            self.pings_seen.append((self.now(), pl))
            self.run.probe("auto-ping-seen")
            self.on_ping(k, pl)

    def on_ping(self, k, payload):
        cfg = self.cfg
        if not self.ping_policy:
            return
        kind, delta = self.ping_policy[min(k, len(self.ping_policy) - 1)]
        d = None
        if cfg["apt"] > 0:
            d = self.arm("ping", self.now(), cfg["apt"])
        if kind == "never":
            if d:
                d["reaction"] = None
            return
        if kind == "pong-now":
            t = self.now()
        else:
            base = d["deadline"] if d else self.now() + 1.0
            if delta is None:
                if d:
                    d["reaction"] = None
                return
            t = max(self.now(), base + delta)
        if kind == "data-delta" and not cfg["restart"]:
            # data does not count as an answer when restart-on-any-traffic is off
            if d:
                d["reaction"] = None
            self.at(t, "data-instead-of-pong", lambda: self.peer_data(None))
            return
        if d:
            d["reaction"] = t
            d["settled"] = True
        if kind == "data-delta":
            self.at(t, "data-instead-of-pong", lambda d=d: self.peer_data(d))
        else:
            self.at(t, "pong", lambda payload=payload: self.peer_pong(payload))

    def void_reaction(self, t):
        """The reaction planned for time t does not happen (a peer sends nothing after its
        own close frame)."""
        for d in self.deadlines:
            if d["name"] == "ping" and d["reaction"] == t and "fired_at" not in d:
                d["reaction"] = None
                d.pop("settled", None)

    def peer_pong(self, payload):
        if self.peer_sent_close:
            self.void_reaction(self.now())
            return
        if self.e.p._st in (3, 2):
            self.peer_send_now(encode_frame(10, payload, mask=self.mask()))

    def peer_data(self, d):
        if self.peer_sent_close:
            self.void_reaction(self.now())
            return
        if self.e.p._st in (3, 2):
            # (any complete data frame is traffic - also an empty one, the cheapest heartbeat a peer can send)
            payload = self.run.ch.pick((b"data", b"", b"d" * 130), "data-payload", (2, 2, 1))
            if not payload:
                self.run.probe("empty-data-frame-as-traffic")
            self.peer_send_now(encode_frame(1, payload, mask=self.mask()))
            self.note_traffic()

    # --- step loop ----------------------------------------------------------------------------------------------------
    def actions(self):
        if self.phase_done:
            return []
        tl = self.fw.next_timer(self.reactor)
        tp = self.pq[0][0] if self.pq else None
        if tl is None and tp is None:
            return []
        horizon = 120.0 + self.t0
        if (tl is None or tl > horizon) and tp is None:
            return []
        acts = []
        if tp is not None and (tl is None or tp < tl - 1e-12):
            return [(1.0, "peer-event", self.run_peer_event)]
        if tl is not None and (tp is None or tl < tp - 1e-12):
            return [(1.0, "timer", self.run_timer)]
        # tie: either order is legal
        self.run.probe("timer-peer-tie")
        return [(1.0, "timer", self.run_timer), (1.0, "peer-event", self.run_peer_event)]

    def run_timer(self):
        self.fw.fire_next(self)
        self.pump()

    def run_peer_event(self):
        t, _, name, fn = heapq.heappop(self.pq)
        if t > self.now():
            self.fw.advance(self, t - self.now())
        self.run.log("peer-event", name, round(t, 6))
        fn()
        self.pump()

    def check_step(self):
        self.check_escapes()
        e = self.e
        if e.closed_cb is not None and not self.after_close_checked:
            self.after_close_checked = True
            self.check_close_cause()
            # what the endpoint reports about this close, as of the close notification: no timer may change it later
            self.close_facts0 = [repr(getattr(e.p, k, None)) for k in CLOSE_FACTS]
            self.close_calls0 = len(getattr(e.t, "calls_after_gone", []))
        for ep in self.eps:
            if ep.closed_cb is not None:
                if ep.after_close_events:
                    self.run.violate("C17.inert-after-close", "callback:" + ep.after_close_events[0], "")
                    ep.after_close_events = []
                if ep.writes_after_onclose:
                    self.run.violate("C17.inert-after-close", "write-after-close", "")
                    ep.writes_after_onclose = 0

    # --- oracles ----------------------------------------------------------------------------------------------------------
    def check_close_cause(self):
        run = self.run
        e = self.e
        was_clean, code, reason = e.closed_cb
        t_closed = e.onclose_time
        reason = reason or ""
        fired = None
        for name, text in CAUSE.items():
            if text in reason:
                fired = name
        run.log("closed", round(t_closed, 6), fired, was_clean)
        if fired is not None:
            run.probe("timer-drop:" + fired)
            # which deadline does it belong to: the latest armed one of that name
            cands = [d for d in self.deadlines if d["name"] == fired and d["armed"] <= t_closed + EPS]
            if not cands:
                run.violate("C17.never-if-early", "timer-drop-without-armed-deadline:" + fired, reason)
                return
            d = cands[-1]
            d["fired_at"] = t_closed
            if was_clean or code != 1006:
                run.violate("C17.dropped-by-deadline", "timer-drop-reported-clean:" + fired, repr(e.closed_cb))
            if t_closed > d["deadline"] + EPS:
                run.violate("C17.dropped-by-deadline", "late:" + fired, "closed at %.6f, deadline %.6f" % (t_closed, d["deadline"]))
            r = d["reaction"]
            if r is not None and r != "pending" and d.get("reacted") and r <= d["deadline"] - 1.0 + EPS and r <= t_closed + EPS:
                run.violate("C17.never-if-early", "dropped-despite-early-reaction:" + fired,
                            "reaction at %.6f, deadline %.6f, dropped at %.6f" % (r, d["deadline"], t_closed))

    def drain(self):
        # run out the time line: everything scheduled happens, then a long quiet period
        guard = 0
        while guard < 3000 and not self.run.fatal:
            guard += 1
            tl = self.fw.next_timer(self.reactor)
            tp = self.pq[0][0] if self.pq else None
            if tl is None and tp is None:
                break
            if tp is not None and (tl is None or tp <= tl):
                self.run_peer_event()
            else:
                if tl > self.t0 + 300.0 and tp is None:
                    break
                self.run_timer()
            self.check_step()
        self.phase_done = True

    def final(self):
        run = self.run
        e = self.e
        cfg = self.cfg
        self.check_step()
        # dropped-by-deadline: a silent / late peer => dropped no later than the deadline
        for d in self.deadlines:
            r = d["reaction"]
            if r == "pending":
                continue
            silent = r is None or r > d["deadline"] + EPS
            if not silent:
                continue
            # the deadline only binds while its condition persists: if the connection ended for
            # another reason before the deadline, nothing to check
            if e.closed_cb is not None and e.onclose_time <= d["deadline"] + EPS:
                continue
            if d["name"] == "ping" and cfg["restart"] and d.get("settled"):
                continue
            if d["name"] == "ping" and self.superseded(d):
                continue
            run.violate("C17.dropped-by-deadline", "not-dropped:" + d["name"],
                        "deadline %.6f (armed %.6f + %s), reaction %r, closed at %r" % (
                            d["deadline"], d["armed"], d["timeout"], r, getattr(e, "onclose_time", None)))
        # ping cadence towards a peer that answers at once
        # (also when no ping at all was seen: a ping chain that never started is the longest gap there is)
        if cfg["api"] and self.ping_policy and all(k == "pong-now" for k, _ in self.ping_policy) and self.t_open is not None:
            times = [t for t, _ in self.pings_seen]
            t_end = e.state_times.get(2, e.state_times.get(0, self.now()))
            prev = self.t_open
            for t in times:
                if t - prev > cfg["api"] + EPS:
                    run.violate("C17.ping-cadence", "gap-too-long", "%.6f > %s" % (t - prev, cfg["api"]))
                    break
                prev = t
            else:
                if t_end - prev > cfg["api"] + EPS and e.p._st in (3,) or (t_end - prev > cfg["api"] + EPS and t_end > prev):
                    run.violate("C17.ping-cadence", "pings-stopped-while-open",
                                "last ping %.6f, open until %.6f, interval %s" % (prev, t_end, cfg["api"]))
            run.probe("ping-cadence-checked")
        # inert after close: 1000 quiet seconds
        if e.closed_cb is not None or e.p._st == 0:
            ev0 = len(e.events)
            st0 = len(e.states)
            w0 = e.t.written_total
            lg = run.nevents
            facts = CLOSE_FACTS
            facts0 = getattr(self, "close_facts0", None) or [repr(getattr(e.p, k, None)) for k in facts]
            calls0 = getattr(self, "close_calls0", None)
            if calls0 is None:
                calls0 = len(getattr(e.t, "calls_after_gone", []))
            t_end = self.now() + 1000.0
            n = 0
            while n < 200:
                nt = self.fw.next_timer(self.reactor)
                if nt is None or nt > t_end:
                    break
                self.fw.fire_next(self)
                self.fw.loop_drain(self)
                n += 1
                if n > 50 and n % 50 == 0:
                    pass
            self.check_escapes()
            if len(e.events) != ev0:
                run.violate("C17.inert-after-close", "callback-after-close:" + e.events[ev0][0], "")
            if len(e.states) != st0:
                run.violate("C17.inert-after-close", "state-change-after-close", "")
            if e.writes_after_onclose:
                run.violate("C17.inert-after-close", "write-after-close", "")
            facts1 = [repr(getattr(e.p, k, None)) for k in facts]
            if facts1 != facts0 and e.closed_cb is not None:
                changed = [k for k, a, b in zip(facts, facts0, facts1) if a != b]
                run.violate("C17.inert-after-close", "close-facts-changed-after-close:" + ",".join(changed), "%r -> %r" % (facts0, facts1))
            calls = getattr(e.t, "calls_after_gone", [])[calls0:]
            if calls and e.closed_cb is not None:
                run.violate("C17.inert-after-close", "transport-call-after-close:" + calls[0], repr(calls[:4]))
            if n:
                run.probe("timers-fired-after-close", n)
            run.probe("inert-checked")

    def superseded(self, d):
        """A ping deadline is void once the connection left OPEN before it (closing started)."""
        e = self.e
        t_closing = e.state_times.get(2)
        return t_closing is not None and t_closing <= d["deadline"] + EPS

    def on_escape(self, ep, where, exc):
        from worlds.ws import exc_site
        self.run.violate("C17.inert-after-close" if self.e.closed_cb is not None else "C17.no-escape",
                         "%s:%s:%s" % (where, type(exc).__name__, exc_site(exc)), repr(exc))

    def nontrivial(self):
        return len(self.deadlines) >= 1

    def abstract_state(self):
        return (self.e.p._st, round(self.now(), 3))

    def sample(self):
        s = WsWorld.sample(self)
        s["deadlines"] = [{k: (round(v, 4) if isinstance(v, float) else v) for k, v in d.items()} for d in self.deadlines]
        return s
