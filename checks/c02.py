"""
C02 - incoming byte streams are judged exactly as RFC 6455 prescribes.

Raw-peer world after a canned valid handshake.  The scripted peer emits a generated frame
stream (valid and near-valid frames); the independent reference receiver
(sim.ref_ws.judge_stream) judges the same octets; the real endpoint must show exactly the
reference deliveries, answer pings of the well-formed prefix, and fail the connection
according to its failByDrop policy at the first violation - under every segmentation.

Modes: "gen" (generated streams) and ["sweep", ctx, value] - the first two header octets
walk all 65536 values in each receiver context (batch prefix, see mode_for()).
"""

import struct
import zlib

from sim.core import SetupViolation, short
from sim.ref_ws import DeflateCodec, SenderMonitor, encode_frame, judge_stream
from worlds.ws import WsWorld, ws_classes

PROP = "C02"
MAX_STEPS = 90

# receiver contexts of the sweep: (is_server, inside_message, compression, failByDrop)
CONTEXTS = [(s, i, c, f) for s in (True, False) for i in (False, True) for c in (False, True) for f in (True, False)]
SWEEP_QUICK_PER_CTX = 4096


def mode_for(index, tier):
    """Batch prefix = the header sweep interleaved one to one with generated streams (so that a slow machine or a short
    budget still sees both); afterwards generated streams only."""
    per_ctx = 65536 if tier == "thorough" else SWEEP_QUICK_PER_CTX
    total = per_ctx * len(CONTEXTS)
    if index < 2 * total and index % 2 == 1:
        return "gen"
    index = index // 2 if index < 2 * total else total
    if index < total:
        ctx = index % len(CONTEXTS)
        k = index // len(CONTEXTS)
        if per_ctx == 65536:
            value = k
        else:
            value = (k * 40503 + 12345 * (ctx + 1)) % 65536  # stride sample, different per ctx
        return ["sweep", ctx, value]
    return "gen"


INVALID_CLOSE_CODES = [0, 999, 1004, 1005, 1006, 1015, 1016, 1100, 2000, 2999, 5000, 65535]
VALID_CLOSE_CODES = [1000, 1001, 1002, 1003, 1007, 1008, 1009, 1010, 1011, 3000, 3999, 4000, 4999]
EITHER_CLOSE_CODES = [1012, 1013, 1014]
BAD_UTF8 = [b"\xff", b"\xc0\x80", b"\xed\xa0\x80", b"\xf4\x90\x80\x80", b"\xe2\x82", b"\xf8\x88\x80\x80\x80", b"\x80",
            b"\xc1\xbf", b"\xe0\x9f\xbf", b"\xf0\x8f\xbf\xbf"]
GOOD_TEXT = ["", "a", "hello", "κόσμε", "€uro", "\U0001f600", "x" * 125, "y" * 126, "é" * 100, "z" * 70000]


class World(WsWorld):
    PROP = PROP

    def __init__(self, run, mode="gen"):
        WsWorld.__init__(self, run)
        self.P = PROP
        self.force = {}
        self.mode = mode
        self.stream = bytearray()  # octets the peer sent after the handshake
        self.todo = []  # frames (bytes) still to be emitted by the peer
        self.fin_after = False

    # --- build ---------------------------------------------------------------------------------
    def build(self):
        ch = self.run.ch
        self.make_reactor(0.0)
        aw, RecServer, RecClient = ws_classes()
        sweep = isinstance(self.mode, (list, tuple))
        if sweep:
            is_server, inside, comp, fbd = CONTEXTS[self.mode[1]]
            cfg = {"server": is_server, "inside": inside, "deflate": comp, "failByDrop": fbd, "requireMasked": True,
                   "acceptMasked": False, "utf8": True}
        else:
            cfg = {"server": ch.flag("server"), "deflate": ch.flag("deflate", 0.3), "failByDrop": ch.flag("failByDrop"),
                   "requireMasked": not ch.flag("noRequireMasked", 0.1), "acceptMasked": ch.flag("acceptMasked", 0.1),
                   "utf8": not ch.flag("noUtf8", 0.1), "inside": False,
                   # automatic pings (no timeout: the scripted peer never answers them): the stream is then judged while
                   # a ping of our own is outstanding
                   "autoping": ch.flag("auto-ping", 0.15)}
        cfg.update(self.force)
        self.cfg = cfg
        is_server = cfg["server"]
        self.kind = "raw-server" if is_server else "raw-client"
        opts = dict(failByDrop=cfg["failByDrop"], utf8validateIncoming=cfg["utf8"], openHandshakeTimeout=0,
                    closeHandshakeTimeout=1)
        if cfg.get("autoping"):
            opts.update(autoPingInterval=150.0, autoPingTimeout=0, autoPingRestartOnAnyTraffic=ch.flag("ping-restart"))
        ext_req = b""
        ext_resp = b""
        if is_server:
            fac = aw.WebSocketServerFactory("ws://localhost:9000", **self.fw.factory_kw(self.reactor))
            opts["requireMaskedClientFrames"] = cfg["requireMasked"]
            if cfg["deflate"]:
                from autobahn.websocket.compress import PerMessageDeflateOffer, PerMessageDeflateOfferAccept
                opts["perMessageCompressionAccept"] = lambda offers: PerMessageDeflateOfferAccept(offers[0]) \
                    if offers and isinstance(offers[0], PerMessageDeflateOffer) else None
                ext_req = b"Sec-WebSocket-Extensions: permessage-deflate\r\n"
        else:
            fac = aw.WebSocketClientFactory("ws://localhost:9000", **self.fw.factory_kw(self.reactor))
            opts["acceptMaskedServerFrames"] = cfg["acceptMasked"]
            opts["serverConnectionDropTimeout"] = 1
            if cfg["deflate"]:
                from autobahn.websocket.compress import PerMessageDeflateOffer, PerMessageDeflateResponseAccept
                opts["perMessageCompressionOffers"] = [PerMessageDeflateOffer()]
                opts["perMessageCompressionAccept"] = lambda resp: PerMessageDeflateResponseAccept(resp)
                ext_resp = b"Sec-WebSocket-Extensions: permessage-deflate\r\n"
        fac.setProtocolOptions(**opts)
        e, peer = self.build_raw(fac, is_server)
        e.monitor = SenderMonitor("any", cfg["deflate"], DeflateCodec() if cfg["deflate"] else None)
        self.start(e)
        self.run.log("cfg", self.kind, sorted(cfg.items()), self.mode if sweep else "gen")
        # canned handshake, delivered whole
        if is_server:
            self.peer.send(self.client_request_bytes(extra=ext_req))
        else:
            e.t.flush(None)
            self.fw.loop_drain(self)
            self.peer.send(self.server_response_bytes(bytes(self.peer.received), extra=ext_resp))
        chunk = self.p2e.take(len(self.p2e.buf))
        e.on_delivered(chunk)
        self.fw.deliver(self, e.t, chunk)
        self.fw.loop_drain(self)
        e.t.flush(None)
        self.check_escapes()
        if e.p._st != 3:
            raise SetupViolation("valid-handshake-did-not-open-the-connection", repr(e.events)[:200])
        if cfg["deflate"] and e.p._perMessageCompress is None:
            raise SetupViolation("compression-not-negotiated-by-valid-handshake", "")
        self.comp = zlib.compressobj(zlib.Z_DEFAULT_COMPRESSION, zlib.DEFLATED, -15) if cfg["deflate"] else None
        if sweep:
            self.gen_sweep(self.mode[2], cfg["inside"])
        else:
            self.gen_stream()
        self.first_emit = True
        # a neighbour: a second connection of the same factory whose peer trickles pings while the judged stream
        # arrives - connections of one process must not share per-connection state
        self.neighbour = None
        if (not sweep) and ch.flag("neighbour-connection", 0.15):
            self.build_neighbour(fac, is_server, ext_req, ext_resp)
        # the application may start its own closing handshake while the stream is still arriving: what follows is
        # judged in CLOSING state (safety half only, see final())
        self.local_close_planned = (not sweep) and ch.flag("local-close", 0.15)
        self.local_closed = False
        # the application may echo every message with a synched write: its octets sit in the endpoint's send queue
        # (drained by 10 us timers) when later frames - and the violation - are processed
        self.echo_sync = False
        if (not sweep) and ch.flag("echo-sync", 0.12):
            self.echo_sync = True
            def echo(payload, is_binary, e=e):
                try:
                    e.p.sendMessage(payload, is_binary, sync=True)
                    self.run.probe("echoed-with-synched-write")
                except Exception as ex:  # noqa
                    self.run.log("echo-raised", type(ex).__name__)
            e.hooks["on_message"] = echo

    def build_neighbour(self, fac, is_server, ext_req, ext_resp):
        from worlds.ws import Ep
        t, p, peer, e2p, p2e = self.fw.connect_raw(self.run, self.reactor, fac, is_server, name="N")
        peer.name = "PN"
        n = Ep(self, "N", is_server)
        n.t, n.p = t, p
        p.ep = n
        t.observers.append(n.on_write)
        n.monitor = SenderMonitor("any", self.cfg["deflate"], DeflateCodec() if self.cfg["deflate"] else None)
        self.fw.make_connection(t)
        if is_server:
            peer.send(self.client_request_bytes(extra=ext_req))
        else:
            t.flush(None)
            self.fw.loop_drain(self)
            peer.send(self.server_response_bytes(bytes(peer.received), extra=ext_resp))
        chunk = p2e.take(len(p2e.buf))
        n.on_delivered(chunk)
        self.fw.deliver(self, t, chunk)
        self.fw.loop_drain(self)
        t.flush(None)
        if n.p._st != 3:
            raise SetupViolation("valid-handshake-did-not-open-the-connection", "neighbour connection")
        self.eps.append(n)
        self.pipes.append((p2e, n))
        self.neighbour = n
        self.n_peer = peer
        k = 2 + self.run.ch.choose(4, "neighbour-pings")
        self.n_pings = [("NEIGHBOUR-%d-" % i).encode() * 3 for i in range(k)]
        self.n_todo = list(self.n_pings)
        self.run.probe("neighbour-connection")

    def neighbour_emit(self):
        payload = self.n_todo.pop(0)
        self.n_peer.send(encode_frame(9, payload, mask=b"\x51\x52\x53\x54" if self.cfg["server"] else None))

    # --- stream generation ---------------------------------------------------------------------------
    def mask(self):
        """Mask key to use for a frame that shall be correctly masked for this receiver."""
        if self.cfg["server"]:
            return struct.pack("!I", self.run.ch.choose(1 << 16, "mask") * 65537 % (1 << 32))
        return None

    def wrong_mask(self):
        if self.cfg["server"]:
            return None
        return b"\x01\x02\x03\x04"

    def deflate(self, data):
        return (self.comp.compress(data) + self.comp.flush(zlib.Z_SYNC_FLUSH))[:-4]

    def gen_sweep(self, value, inside):
        b0, b1 = value >> 8, value & 0xFF
        frames = []
        if inside:
            frames.append(encode_frame(1, b"in", fin=False, mask=self.mask()))
        l1 = b1 & 0x7F
        masked = bool(b1 & 0x80)
        if l1 == 126:
            ext = struct.pack("!H", 126)
            n = 126
        elif l1 == 127:
            ext = struct.pack("!Q", 65536)
            n = 65536
        else:
            ext = b""
            n = l1
        op = b0 & 0x0F
        rsv1 = bool(b0 & 0x40)
        if op == 8 and n >= 2:
            payload = struct.pack("!H", 1000) + b"c" * (n - 2)
        elif rsv1 and self.cfg["deflate"] and op in (1, 2) and not inside:
            # give compressed first frames a decodable payload of exactly n octets when possible
            payload = self.fit_deflate(n)
        else:
            payload = b"a" * n
        key = b"\x37\xfa\x21\x3d" if masked else None
        from sim.ref_ws import xor_mask
        raw = bytes([b0, b1]) + ext + (key + xor_mask(payload, key) if masked else payload)
        frames.append(raw)
        # follow-up: a valid ping so that "processing continues / stops" is observable
        frames.append(encode_frame(9, b"after", mask=self.mask()))
        self.todo = frames

    def fit_deflate(self, n):
        """Some raw-deflate payload of exactly n octets (stored blocks), or filler."""
        if n < 6:
            return b"a" * n
        # one stored block: 0x00 LEN NLEN data, not final; message tail 00 00 ff ff is re-appended by receiver
        k = n - 5
        if k > 65535:
            return b"a" * n
        return b"\x00" + struct.pack("<HH", k, k ^ 0xFFFF) + b"s" * k

    def gen_stream(self):
        ch = self.run.ch
        n = 1 + ch.choose(9, "nframes")
        frames = []
        in_msg = False
        budget = 200000
        for _ in range(n):
            kind = ch.pick(("text", "binary", "frag", "ping", "pong", "close", "bad"), "fkind", (4, 3, 3, 2, 1, 1.2, 4))
            if kind == "text":
                t = ch.pick(GOOD_TEXT, "text").encode("utf8")
                if len(t) > budget:
                    t = b"t"
                budget -= len(t)
                frames += self.data_message(1, t, ch.flag("compress", 0.5) if self.cfg["deflate"] else False)
            elif kind == "binary":
                L = ch.pick((0, 1, 125, 126, 127, 300, 65535, 65536), "blen", (3, 3, 3, 3, 2, 2, 1, 1))
                if L > budget:
                    L = 3
                budget -= L
                frames += self.data_message(2, bytes((i * 7) & 0xFF for i in range(L)),
                                            ch.flag("compress", 0.5) if self.cfg["deflate"] else False)
            elif kind == "frag":
                t = ch.pick(GOOD_TEXT[:9], "ftext").encode("utf8")
                frames += self.data_message(1 if ch.flag("ftextop", 0.7) else 2, t,
                                            ch.flag("compress", 0.5) if self.cfg["deflate"] else False,
                                            nfrag=2 + ch.choose(3, "nfrag"), interleave=ch.flag("interleave", 0.4))
            elif kind == "ping":
                frames.append(encode_frame(9, b"p" * ch.pick((0, 1, 125), "plen"), mask=self.mask()))
            elif kind == "pong":
                frames.append(encode_frame(10, b"q" * ch.pick((0, 4, 125), "plen"), mask=self.mask()))
            elif kind == "close":
                frames.append(self.close_frame())
            else:
                frames += self.bad_frames()
        if ch.flag("truncate-tail", 0.1) and frames:
            last = frames[-1]
            if len(last) > 1:
                frames[-1] = last[:1 + ch.choose(len(last) - 1, "trunc")]
                self.run.probe("truncated-tail")
        self.fin_after = ch.flag("fin-after", 0.3)
        self.todo = frames

    def data_message(self, op, payload, compress, nfrag=1, interleave=False):
        ch = self.run.ch
        rsv = 0
        if compress:
            payload = self.deflate(payload)
            rsv = 4
            self.run.probe("compressed-message")
        if nfrag == 1:
            return [encode_frame(op, payload, rsv=rsv, mask=self.mask())]
        cuts = sorted(ch.choose(len(payload) + 1, "fcut") for _ in range(nfrag - 1))
        parts = []
        prev = 0
        for c in cuts + [len(payload)]:
            parts.append(payload[prev:c])
            prev = c
        out = []
        for i, part in enumerate(parts):
            out.append(encode_frame(op if i == 0 else 0, part, fin=(i == len(parts) - 1), rsv=rsv if i == 0 else 0,
                                    mask=self.mask()))
            if interleave and i < len(parts) - 1:
                out.append(encode_frame(9, b"mid%d" % i, mask=self.mask()))
                self.run.probe("control-inside-fragmented-message")
        return out

    def close_frame(self):
        ch = self.run.ch
        kind = ch.pick(("valid", "empty", "invalid-code", "either-code", "bad-utf8", "len1", "valid-reason"), "ckind",
                       (3, 2, 3, 0.6, 1.5, 1, 2))
        if kind == "valid":
            pl = struct.pack("!H", ch.pick(VALID_CLOSE_CODES, "vcode"))
        elif kind == "empty":
            pl = b""
        elif kind == "invalid-code":
            pl = struct.pack("!H", ch.pick(INVALID_CLOSE_CODES, "icode")) + b"why"
        elif kind == "either-code":
            pl = struct.pack("!H", ch.pick(EITHER_CLOSE_CODES, "ecode"))
        elif kind == "bad-utf8":
            pl = struct.pack("!H", 1000) + ch.pick(BAD_UTF8, "badutf8")
        elif kind == "len1":
            pl = b"\x03"
        else:
            pl = struct.pack("!H", 1000) + "tschüß €".encode("utf8")
        return encode_frame(8, pl, mask=self.mask())

    def bad_frames(self):
        ch = self.run.ch
        m = self.mask()
        kind = ch.pick(("rsv", "rsv1-control", "rsv1-cont", "resv-data-op", "resv-ctl-op", "frag-control", "long-control",
                        "cont-outside", "data-inside", "nonmin16", "nonmin64", "over63", "wrong-mask", "bad-utf8",
                        "bad-utf8-split", "utf8-truncated", "bad-utf8-late"), "bad")
        self.run.fault("bad:" + kind)
        if kind == "rsv":
            op = ch.pick((1, 2, 9), "op")
            bits = ch.pick((1, 2, 3, 5, 6, 7, 4), "rsvbits")
            pl = b"r"
            if bits == 4 and self.cfg["deflate"] and op != 9:
                pl = self.deflate(pl)  # RSV1 on a first data frame is legal here: keep the payload decodable
            return [encode_frame(op, pl, rsv=bits, mask=m)]
        if kind == "rsv1-control":
            return [encode_frame(ch.pick((8, 9, 10), "op"), b"", rsv=4, mask=m)]
        if kind == "rsv1-cont":
            return [encode_frame(2, b"a", fin=False, mask=m), encode_frame(0, b"b", fin=True, rsv=4, mask=self.mask())]
        if kind == "resv-data-op":
            return [encode_frame(ch.pick((3, 4, 5, 6, 7), "op"), b"x", mask=m)]
        if kind == "resv-ctl-op":
            return [encode_frame(ch.pick((11, 12, 13, 14, 15), "op"), b"", mask=m)]
        if kind == "frag-control":
            return [encode_frame(ch.pick((8, 9, 10), "op"), b"", fin=False, mask=m)]
        if kind == "long-control":
            return [encode_frame(ch.pick((8, 9, 10), "op"), struct.pack("!H", 1000) + b"l" * 124, mask=m)]
        if kind == "cont-outside":
            return [encode_frame(0, b"c", fin=ch.flag("fin"), mask=m)]
        if kind == "data-inside":
            return [encode_frame(1, b"a", fin=False, mask=m), encode_frame(ch.pick((1, 2), "op"), b"b", mask=self.mask())]
        if kind == "nonmin16":
            n = ch.pick((0, 1, 125), "n")
            return [encode_frame(2, b"n" * n, mask=m, length_enc=16)]
        if kind == "nonmin64":
            n = ch.pick((0, 125, 126, 65535), "n", (2, 2, 2, 1))
            return [encode_frame(2, b"n" * n, mask=m, length_enc=64)]
        if kind == "over63":
            return [encode_frame(2, b"", mask=m, length_enc=64, declared_len=ch.pick((1 << 63, (1 << 64) - 1), "big"))]
        if kind == "wrong-mask":
            return [encode_frame(1, b"w", mask=self.wrong_mask())]
        if kind == "bad-utf8":
            return [encode_frame(1, b"ok" + ch.pick(BAD_UTF8, "bu") + b"tail", mask=m)]
        if kind == "bad-utf8-split":
            seq = "€".encode("utf8")
            out = [encode_frame(1, b"a" + seq[:1], fin=False, mask=m)]
            if ch.flag("control-frame-before-the-invalid-continuation", 0.4):
                # a ping or pong between the fragments (legal) changes nothing about the text message being validated
                out.append(encode_frame(ch.pick((9, 10), "ctl-op"), b"mid", mask=self.mask()))
                self.run.probe("control-inside-fragmented-message")
                self.run.probe("control-frame-before-invalid-continuation")
            bad_tail = ch.pick((b"\x41" + seq[2:], b"Hello\xff!", seq[1:2]), "bad-tail")
            out.append(encode_frame(0, bad_tail, fin=True, mask=self.mask()))
            return out
        if kind == "utf8-truncated":
            seq = ch.pick(("€", "\U0001f600", "é"), "tseq").encode("utf8")
            form = ch.pick(("whole", "empty-final-fragment", "empty-fragments"), "tform", (2, 2, 1))
            if form == "whole":
                return [encode_frame(1, b"ab" + seq[:-1], mask=m)]
            # the message ends inside a multi-byte sequence, and the frame that ends it carries no payload at all
            self.run.probe("text-cut-inside-code-point-ended-by-empty-frame")
            out = [encode_frame(1, b"ab" + seq[:-1], fin=False, mask=m)]
            if form == "empty-fragments":
                out.append(encode_frame(0, b"", fin=False, mask=self.mask()))
            out.append(encode_frame(0, b"", fin=True, mask=self.mask()))
            return out
        # invalid octet late in a long text message, message split over two frames
        return [encode_frame(1, b"x" * 300, fin=False, mask=m), encode_frame(0, b"y" * 200 + b"\xff" + b"z" * 50, mask=self.mask())]

    # --- peer actions -------------------------------------------------------------------------------------
    def extra_actions(self):
        acts = []
        if self.todo:
            acts.append((5.0, "emit", self.emit))
        elif self.fin_after and not self.peer.closed:
            acts.append((1.0, "peer-fin", self.peer_fin))
        if self.local_close_planned and not self.local_closed and self.e.p._st == 3:
            acts.append((1.2, "app-close", self.app_close))
        if self.neighbour is not None and self.n_todo and not self.neighbour.t.is_gone():
            acts.append((3.0, "neighbour-emit", self.neighbour_emit))
        return acts

    def emit(self):
        ch = self.run.ch
        k = 1 if len(self.todo) == 1 else 1 + ch.low(len(self.todo), "emit-k", 0.5)
        data = b"".join(self.todo[:k])
        del self.todo[:k]
        self.stream += data
        self.run.abstract("emit", short(data, 0))
        self.peer.send(data)

    def app_close(self):
        self.local_closed = True
        self.run.fault("local-close-in-flight")
        self.run.log("app", "sendClose", 1000)
        self.fw.call(self, self.e.p.sendClose, 1000, "bye")

    def peer_fin(self):
        self.peer.fin()
        self.peer.closed = True
        self.run.fault("peer-fin")

    def drain(self):
        if self.todo:
            data = b"".join(self.todo)
            self.todo = []
            self.stream += data
            self.peer.send(data)
        WsWorld.drain(self)

    # --- oracle ---------------------------------------------------------------------------------------------
    def got_deliveries(self):
        out = []
        for e in self.e.events:
            if e[0] == "onMessage":
                out.append(("msg", e[1], e[2]))
            elif e[0] == "onPing":
                out.append(("ping", e[1]))
            elif e[0] == "onPong":
                out.append(("pong", e[1]))
        return out

    def reference(self, upto=None):
        cfg = self.cfg
        data = bytes(self.stream if upto is None else self.stream[:upto])
        return judge_stream(data, cfg["server"], require_masked=cfg["requireMasked"], accept_masked=cfg["acceptMasked"],
                            compression=cfg["deflate"], validate_utf8=cfg["utf8"],
                            inflater=DeflateCodec() if cfg["deflate"] else None)

    def check_step(self):
        self.check_escapes()
        # prefix property at every step against the reference of everything emitted so far
        ref = self.reference()
        got = self.got_deliveries()
        exp = ref.deliveries
        if len(got) > len(exp) or got != exp[:len(got)]:
            if not getattr(self, "_rep", False):
                self._rep = True
                self.report(got, exp, ref)

    def report(self, got, exp, ref):
        k = 0
        while k < len(got) and k < len(exp) and got[k] == exp[k]:
            k += 1
        if k >= len(exp):
            what = "extra-%s-after-%s" % (got[k][0], "violation" if ref.violation else ("close" if ref.peer_close else "end"))
        elif k >= len(got):
            what = "missing-%s" % exp[k][0]
        else:
            what = "differs-%s-vs-%s" % (got[k][0], exp[k][0])
        self.run.violate(self.P + ".deliveries-exact", what, "delivery #%d: got %r expected %r (violation=%r)" % (
            k, _brief(got[k]) if k < len(got) else None, _brief(exp[k]) if k < len(exp) else None, ref.violation))

    def final(self):
        run = self.run
        self.check_step()
        if self.neighbour is not None:
            n = self.neighbour
            sent = self.n_pings[:len(self.n_pings) - len(self.n_todo)]
            pongs = [pl for op, pl in n.monitor.controls if op == 10]
            if pongs != sent[:len(pongs)] or (len(pongs) < len(sent) and not n.t.is_gone() and n.closed_cb is None):
                run.violate(self.P + ".ping-answered", "neighbour-pong-missing-or-wrong", "pongs %r for pings %r" % (
                    [x[:14] for x in pongs], [x[:14] for x in sent]))
            for suffix, sig, detail in n.monitor.errors:
                run.violate(self.P + ".%s" % suffix, sig, "neighbour: " + detail)
        e = self.e
        if self.cfg.get("autoping") and any(op == 9 for op, pl in e.monitor.controls):
            run.probe("stream-judged-with-own-auto-ping-outstanding")
        ref = self.reference()
        got = self.got_deliveries()
        exp = ref.deliveries
        m = e.monitor
        for suffix, sig, detail in m.errors:
            run.violate(self.P + ".%s" % suffix, sig, detail)
        if ref.undelivered_text or getattr(self, "garbage", False):
            return  # undecodable compressed data: outside the statement
        if self.local_closed:
            return self.final_local_close(ref, got, exp, m)
        if got != exp and not getattr(self, "_rep", False):
            self.report(got, exp, ref)
        # ping-answered: pongs on the wire == pings of the well-formed prefix, in order, same payload.
        exp_pongs = [d[1] for d in exp if d[0] == "ping"]
        got_pongs = [pl for op, pl in m.controls if op == 10]
        # with synched echoes, pongs and the failure/reply close frame queue up behind the echoes (drained by 10 us
        # timers): if the peer drops TCP first they are legitimately never written - then only "no wrong pong,
        # no second close frame" remains
        lossy = self.echo_sync and (self.peer.closed or ((ref.violation is not None or ref.violation_either) and self.cfg["failByDrop"]))
        if lossy:
            run.probe("peer-dropped-while-send-queue-draining")
            if got_pongs != exp_pongs[:len(got_pongs)]:
                run.violate(self.P + ".ping-answered", "pong-missing-or-wrong", "pongs %r for pings %r (send queue cut)" % (
                    [p[:8] for p in got_pongs], [p[:8] for p in exp_pongs]))
            if m.close_count > 1:
                run.violate(self.P + ".fail-policy", "close-frames:%d:send-queue-cut" % m.close_count, "")
            return
        if ref.violation is None and not ref.incomplete or True:
            # pings of the prefix arrive while the connection is open, so each must be answered
            if got_pongs[:len(exp_pongs)] != exp_pongs:
                run.violate(self.P + ".ping-answered", "pong-missing-or-wrong", "pongs %r for pings %r" % (
                    [p[:8] for p in got_pongs], [p[:8] for p in exp_pongs]))
            elif len(got_pongs) > len(exp_pongs):
                run.violate(self.P + ".ping-answered", "pong-for-ping-outside-prefix", "%d pongs, %d pings in prefix" % (
                    len(got_pongs), len(exp_pongs)))
        viol = ref.violation
        if viol is not None:
            run.probe("violation:" + viol[0])
            kind = viol[0]
            want = 1002 if kind == "protocol" else 1007
            if self.cfg["failByDrop"]:
                if m.close_count:
                    run.violate(self.P + ".fail-policy", "close-frame-despite-failByDrop", repr(m.close_sent))
                if e.closed_cb is None:
                    run.violate(self.P + ".fail-policy", "not-dropped-after-violation:" + viol[1].split("-")[0], repr(viol))
                else:
                    wc, code, reason = e.closed_cb
                    if wc or code != 1006:
                        run.violate(self.P + ".fail-policy", "drop-reported-clean", repr(e.closed_cb))
                    if not self.fw_aborted():
                        run.violate(self.P + ".fail-policy", "not-aborted", "")
            else:
                if m.close_count != 1:
                    run.violate(self.P + ".fail-policy", "close-frames:%d:%s" % (m.close_count, viol[1].split("-")[0]), repr(viol))
                elif m.close_sent[0] != want:
                    if not (ref.violation_either):
                        run.violate(self.P + ".fail-policy", "status-%s-for-%s" % (m.close_sent[0], kind), repr(viol))
                if e.closed_cb is not None and e.closed_cb[0] and not ref.violation_either:
                    # a failed connection is never a clean close unless the peer completed the handshake
                    if not e.rx_close_frames:
                        run.violate(self.P + ".fail-policy", "failed-connection-reported-clean", repr(e.closed_cb))
        elif not ref.incomplete or ref.peer_close is not None or True:
            # no violation in the stream: the endpoint must not have failed the connection
            if ref.peer_close is None and not ref.violation_either:
                if m.close_count:
                    run.violate(self.P + ".fail-policy", "failed-wellformed-stream:close-%s" % (m.close_sent[0],), "")
                elif e.closed_cb is not None and not self.peer.closed:
                    run.violate(self.P + ".fail-policy", "dropped-wellformed-stream", repr(e.closed_cb))
            if ref.peer_close is not None:
                run.probe("peer-close-ends-prefix")
                if m.close_count != 1 and not ref.violation_either:
                    run.violate(self.P + ".fail-policy", "peer-close-not-answered:%d" % m.close_count, "")

    def final_local_close(self, ref, got, exp, m):
        """Our own close frame (1000) went out while the stream was arriving.  The statement speaks of open
        connections, so completeness (every message / pong of the prefix) is not demanded here; what stays is
        safety: nothing outside the reference prefix is delivered (checked at every step), no wrong pong, no second
        close frame, and a violation still ends the connection."""
        run = self.run
        e = self.e
        exp_pongs = [d[1] for d in exp if d[0] == "ping"]
        got_pongs = [pl for op, pl in m.controls if op == 10]
        if got_pongs != exp_pongs[:len(got_pongs)]:
            run.violate(self.P + ".ping-answered", "pong-missing-or-wrong", "pongs %r for pings %r (local close in flight)" % (
                [p[:8] for p in got_pongs], [p[:8] for p in exp_pongs]))
        if m.close_count != 1 and not (self.echo_sync and m.close_count == 0):
            # (with synched echoes our close frame may still sit in the send queue when the connection is aborted)
            run.violate(self.P + ".fail-policy", "close-frames:%d:local-close-in-flight" % m.close_count, repr(ref.violation))
        if ref.violation is not None:
            run.probe("violation-during-local-close:" + ref.violation[0])
            if e.closed_cb is None:
                run.violate(self.P + ".fail-policy", "not-dropped-after-violation:local-close-in-flight", repr(ref.violation))

    def fw_aborted(self):
        t = self.e.t
        return bool(getattr(t, "aborting", False)) or any("abort" in str(x) for x in ()) or getattr(t, "gone", False) \
            or getattr(t, "disconnected", False)

    def on_escape(self, ep, where, exc):
        from worlds.ws import exc_site
        if "compress_" in exc_site(exc):
            # undecodable compressed payload (sweep filler): outside the statement
            self.run.probe("undecodable-deflate-escaped")
            self.garbage = True
            return
        WsWorld.on_escape(self, ep, where, exc)

    def nontrivial(self):
        return len(self.stream) > 0 and self.run.probes.get("split-delivery", 0) >= 1

    def sample(self):
        s = WsWorld.sample(self)
        s["mode"] = self.mode
        s["stream_head_hex"] = bytes(self.stream[:48]).hex()
        s["stream_len"] = len(self.stream)
        return s


def _brief(d):
    return tuple((x[:16] if isinstance(x, (bytes, bytearray)) else x) for x in d)
