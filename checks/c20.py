"""
C20 - end-to-end encrypted payloads are recovered exactly or rejected.

Two real sessions with cryptobox KeyRings (default key, per-prefix keys, originator-only /
responder-only keys), a scripted router forwarding between them over real serializers.  In transit
the router may flip a ciphertext octet, substitute the ciphertext of another message, re-label the
envelope URI or deliver to a session holding the wrong key - in all four payload directions
(publish->event, call->invocation, yield->result, error).
"""

import base64
import hashlib

from worlds.duo import DuoWorld
from worlds.wamp import SERIALIZERS, session_classes

from checks.c04 import jsonish

PROP = "C20"
MAX_STEPS = 90

ENC_ERRORS = ("wamp.error.encryption.no_payload_codec", "wamp.error.encryption.trusted_uri_mismatch",
              "wamp.error.encryption.decrypt_error")


def mode_for(index, tier):
    # batch prefix: every single-octet alteration of a short ciphertext, per direction
    n = 4 * 120
    if index < n:
        return ["flip", ("event", "invocation", "result", "error")[index % 4], index // 4]
    return "gen"


def priv(seed):
    return base64.b64encode(hashlib.sha256(seed.encode()).digest()).decode()


def pub_of(priv_b64):
    from nacl.encoding import Base64Encoder
    from nacl.public import PrivateKey
    return PrivateKey(priv_b64, encoder=Base64Encoder).public_key.encode(encoder=Base64Encoder).decode()


class Op:
    pass


class World(DuoWorld):
    PROP = PROP

    def __init__(self, run, mode="gen"):
        DuoWorld.__init__(self, run)
        self.mode = mode
        self.ops = []
        self.ops_left = 0
        self.queue = []  # (target side, message, meta) waiting to be forwarded
        self.handler_calls = []
        self.endpoint_calls = []
        self.cipher_pool = []

    def build(self):
        ch = self.run.ch
        self.make_reactor()
        fwamp = session_classes()
        from autobahn.wamp import message
        from autobahn.wamp.cryptobox import Key, KeyRing
        from autobahn.wamp.types import ComponentConfig
        self.M = message
        flip = isinstance(self.mode, (list, tuple))
        cfg = self.cfg = {
            "ser_o": ch.pick(SERIALIZERS, "ser-o"),
            "ser_r": ch.pick(SERIALIZERS, "ser-r"),
            "layout": "default" if flip else ch.pick(("default", "prefix", "split-roles", "prefix+default", "responder-wrong-key"), "layout"),
        }
        ko, kr = priv("originator-key"), priv("responder-key")
        other = priv("some-other-key")
        layout = cfg["layout"]
        self.secret_prefix = "com.secret."
        self.keys = {"ko": ko, "kr": kr, "other": other}
        # reference model of the two keyrings: prefix -> name of the key ("" is the default key)
        if layout == "default":
            ring_o = KeyRing(default_key=ko)
            ring_r = KeyRing(default_key=ko)
            self.model = {"orig": {"": "ko"}, "resp": {"": "ko"}}
        elif layout == "prefix":
            ring_o, ring_r = KeyRing(), KeyRing()
            ring_o.set_key(self.secret_prefix, ko)
            ring_r.set_key(self.secret_prefix, ko)
            self.model = {"orig": {self.secret_prefix: "ko"}, "resp": {self.secret_prefix: "ko"}}
        elif layout == "prefix+default":
            ring_o, ring_r = KeyRing(default_key=kr), KeyRing(default_key=kr)
            ring_o.set_key(self.secret_prefix, ko)
            ring_r.set_key(self.secret_prefix, ko)
            self.model = {"orig": {"": "kr", self.secret_prefix: "ko"}, "resp": {"": "kr", self.secret_prefix: "ko"}}
        elif layout == "split-roles":
            # the originator holds only its private key and the responder's public key, and vice versa
            ring_o, ring_r = KeyRing(), KeyRing()
            ring_o.set_key(self.secret_prefix, Key(originator_priv=ko, responder_pub=pub_of(kr)))
            ring_r.set_key(self.secret_prefix, Key(responder_priv=kr, originator_pub=pub_of(ko)))
            self.model = {"orig": {self.secret_prefix: "split"}, "resp": {self.secret_prefix: "split"}}
        else:
            ring_o = KeyRing(default_key=ko)
            ring_r = KeyRing(default_key=other)
            self.model = {"orig": {"": "ko"}, "resp": {"": "other"}}
        self.rings = {"orig": ring_o, "resp": ring_r}
        self.rekeys_left = 0 if (flip or layout == "split-roles") else ch.choose(4, "nrekeys", (4, 2, 1, 1))
        self.resp_originates_left = 0 if flip else ch.choose(3, "n-resp-originates", (3, 1, 1))
        self.rejoin_left = 0 if flip else ch.choose(2, "n-rejoin", (3, 1))
        world = self

        class Rejoining(fwamp.ApplicationSession):
            """an application that joins the realm again when the router closes its session (the transport stays)"""
            def onLeave(self, details):
                world.run.probe("originator-rejoins-after-router-GOODBYE")
                world.run.log("app", "onLeave -> join again", details.reason)
                return self.join(self.config.realm)

        orig = Rejoining(ComponentConfig(realm="realm1"))
        resp = fwamp.ApplicationSession(ComponentConfig(realm="realm1"))
        orig.set_payload_codec(ring_o)
        resp.set_payload_codec(ring_r)
        # the responder forwards tracebacks of failing endpoints (part of the error's payload: never in clear either)
        cfg["traceback"] = False if flip else ch.flag("traceback_app", 0.3)
        resp.traceback_app = cfg["traceback"]
        self.o = self.add_side("orig", orig, cfg["ser_o"])
        self.r = self.add_side("resp", resp, cfg["ser_r"])
        self.join_all()
        # the responder subscribes and registers
        self.topics = ["com.secret.topic", "com.public.topic"]
        self.procs = ["com.secret.proc", "com.public.proc"]
        self.sub_ids, self.reg_ids = {}, {}
        # a second handler on the same subscription, and handlers that work on what they were handed in place (sorting a
        # list, popping from a dict): every handler is owed the originator's payload, not what an earlier one left of it
        cfg["two_handlers"] = False if flip else ch.flag("two-handlers-per-topic", 0.3)
        cfg["mutating_handlers"] = cfg["two_handlers"] and ch.flag("handlers-modify-their-arguments-in-place", 0.6)
        self.n_handlers = 2 if cfg["two_handlers"] else 1
        for i, t in enumerate(self.topics):
            for j in range(self.n_handlers):
                self.call(resp.subscribe, self.make_handler(t), t)
        from autobahn.wamp.types import RegisterOptions
        for i, p in enumerate(self.procs):
            self.call(resp.register, self.make_endpoint(p), p, options=RegisterOptions(details_arg="details"))
        # a third endpoint is registered by prefix: calls reach it under URIs of their own, which the INVOCATION names -
        # and which everything that travels back is bound to
        self.pfx = "com.secret.pfx"
        self.call(resp.register, self.make_endpoint(self.pfx), self.pfx, options=RegisterOptions(match="prefix", details_arg="details"))
        self.settle()
        n = 600
        for m in list(self.r.inbox[self.r.cursor:]):
            n += 1
            if isinstance(m, message.Subscribe):
                self.sub_ids.setdefault(m.topic, n)
                self.deliver_to(self.r, message.Subscribed(m.request, self.sub_ids[m.topic]))
            elif isinstance(m, message.Register):
                self.reg_ids[m.procedure] = n
                self.deliver_to(self.r, message.Registered(m.request, n))
        self.settle()
        self.r.cursor = len(self.r.inbox)
        self.o.cursor = len(self.o.inbox)
        self.ops_left = 1 if flip else 2 + ch.choose(6, "nops")
        self.run.log("cfg", sorted((k, repr(v)) for k, v in cfg.items()), self.mode if flip else "gen")
        self.next_id = 8000

    # --- application code of the responder ----------------------------------------------------------------------------
    def make_handler(self, topic):
        def handler(*a, **k):
            self.handler_calls.append((topic, tuple(jsonish(list(a))), jsonish(k)))
            self.run.log("handler", topic, len(a))
            if self.cfg.get("mutating_handlers"):
                for x in list(a) + list(k.values()):
                    if isinstance(x, list):
                        x.append("touched-by-an-earlier-handler")
                    elif isinstance(x, dict):
                        x.clear()
        return handler

    def make_endpoint(self, proc):
        def endpoint(*a, details=None, **k):
            from autobahn.wamp.exception import ApplicationError
            called = getattr(details, "procedure", None) or proc  # (pattern-based registration: the URI actually called)
            self.endpoint_calls.append((called, tuple(jsonish(list(a))), jsonish(k)))
            op = self.by_tok.get(a[0]) if a else getattr(self, "delivering_op", None)  # (a call without arguments: the one being delivered)
            self.run.log("endpoint", proc, op.tok if op else None)
            if op is not None and getattr(op, "progressive", 0) and details is not None and details.progress is not None:
                # progressive results: the less travelled way a responder's payload goes out
                for i in range(op.progressive):
                    details.progress("PROG%d-%s" % (i, op.tok), n=i)
                    self.run.probe("progressive-result-sent")
            if op is not None and op.reply == "error-bare":
                # an exception without arguments (a failed assert, a bare ApplicationError)
                raise ApplicationError("com.secret.error" if proc.startswith("com.secret") else "com.public.error")
            if op is not None and op.reply == "error-plain":
                raise RuntimeError("ERR-" + op.tok)
            if op is not None and op.reply == "error":
                raise ApplicationError("com.secret.error" if proc.startswith("com.secret") else "com.public.error", "ERR-" + op.tok, why="W-" + op.tok)
            return "RES-" + (op.tok if op else "?")
        return endpoint

    by_tok = None

    # --- reference keyring -------------------------------------------------------------------------------------------------
    @staticmethod
    def resolve_in(ring_model, uri):
        """name of the key the ring holds for the URI: longest matching prefix, else the default key, else None"""
        best = None
        for prefix, name in ring_model.items():
            if prefix and uri.startswith(prefix) and (best is None or len(prefix) > len(best)):
                best = prefix
        if best is not None:
            return ring_model[best]
        return ring_model.get("")

    def resolve(self, side_name, uri):
        return self.resolve_in(self.model[side_name], uri)

    def covered(self, uri):
        return self.resolve("resp", uri) is not None

    def rekey(self):
        """the application replaces, adds or removes a key on a live keyring"""
        ch = self.run.ch
        self.rekeys_left -= 1
        who = ch.pick((("orig", "resp"), ("orig",), ("resp",)), "rekey-who", (3, 1, 1))
        prefix = ch.pick(("com.secret.", "", "com.public."), "rekey-prefix")
        name = ch.pick(("other", "kr", "ko", None), "rekey-key")
        if ch.flag("rekey-with-a-malformed-key", 0.2):
            # a roll-over that the library refuses (a hex key instead of base64, a truncated key): the application catches
            # the error and carries on under the keys it had
            bad = ch.pick(("00" * 32, "AAAA", "not base64 at all!"), "bad-key")
            for side_name in who:
                try:
                    self.rings[side_name].set_key(prefix, bad)
                except Exception as e:  # noqa
                    self.run.probe("set_key-refused:%s" % type(e).__name__)
                else:
                    self.run.probe("malformed-key-accepted")
                    self.model[side_name][prefix] = "malformed:" + bad
            self.run.fault("rekey-refused")
            self.run.log("app", "set_key refused", who, prefix)
            return
        for side_name in who:
            self.rings[side_name].set_key(prefix, self.keys[name] if name else None)
            if name is None:
                self.model[side_name].pop(prefix, None)
            else:
                self.model[side_name][prefix] = name
        self.run.fault("rekey")
        self.run.log("app", "set_key", who, prefix, name)

    # --- actions ------------------------------------------------------------------------------------------------------------
    def actions(self):
        if self.by_tok is None:
            self.by_tok = {}
        acts = self.base_actions()
        if self.ops_left > 0:
            acts.append((3.0, "originate", self.originate))
        if self.rekeys_left > 0 and self.ops:
            acts.append((1.5, "rekey", self.rekey))
        if self.resp_originates_left > 0:
            acts.append((1.0, "responder-originates", self.responder_originates))
        if self.rejoin_left > 0 and self.ops and not self.queue and not self.unread(self.o) and not self.unread(self.r) \
                and all(op.w is None or op.w.state()[0] != "pending" for op in self.ops) and self.o.session._session_id:
            acts.append((0.8, "router-goodbye-and-rejoin", self.router_goodbye_rejoin))
        if self.unread(self.o) or self.unread(self.r):
            acts.append((4.0, "router-collect", self.collect))
        if self.queue:
            acts.append((4.0, "router-forward", self.forward))
        return acts

    def router_goodbye_rejoin(self):
        """the router closes the originator's session; the application joins again on the same transport.  The keyring
        it installed once is still its keyring."""
        from autobahn.wamp import role
        M = self.M
        self.rejoin_left -= 1
        self.run.fault("router-goodbye-then-rejoin")
        err = self.deliver_to(self.o, M.Goodbye("wamp.close.system_shutdown", "router restarts the realm"))
        self.settle()
        if err is not None:
            self.run.violate("C20.explicit-error", "goodbye-raised:%s" % type(err).__name__, repr(err))
            return
        new = self.o.inbox[self.o.cursor:]
        self.o.cursor = len(self.o.inbox)
        if not any(isinstance(m, M.Hello) for m in new):
            self.run.log("no-rejoin", [type(m).__name__ for m in new])
            self.ops_left = 0
            return
        roles = {"broker": role.RoleBrokerFeatures(), "dealer": role.RoleDealerFeatures(progressive_call_results=True, call_canceling=True)}
        self.deliver_to(self.o, M.Welcome(3100 + self.rejoin_left, roles, realm="realm1", authid="orig", authrole="user", authmethod="anonymous"))
        self.settle()
        self.o.cursor = len(self.o.inbox)
        if self.o.session._session_id is None:
            self.ops_left = 0

    def responder_originates(self):
        """The responder session is itself an originator on the same URIs now and then (a session is rarely only
        one or the other): with a responder-only key that travels in clear by design - and must not change what the
        session can decrypt afterwards."""
        from autobahn.wamp import types
        self.resp_originates_left -= 1
        uri = self.run.ch.pick(self.topics + self.procs, "resp-uri")
        self.run.probe("responder-originates")
        self.run.log("app", "responder originates on", uri)
        try:
            if uri in self.topics:
                self.call(lambda: self.r.session.publish(uri, "from-responder", options=types.PublishOptions(acknowledge=False)))
            else:
                f = self.call(self.r.session.call, uri, "from-responder")
                self.fw.watch(f)  # (never answered: the scripted router ignores it; failed at the end of the run)
        except Exception as e:  # noqa
            self.run.log("responder-originate-raised", type(e).__name__)
        self.settle()

    def originate(self):
        ch = self.run.ch
        from autobahn.wamp import types
        self.ops_left -= 1
        flip = isinstance(self.mode, (list, tuple))
        op = Op()
        op.tok = "SECRET%dX" % len(self.ops)
        direction = self.mode[1] if flip else None
        op.kind = "publish" if (direction == "event" or (not flip and ch.flag("publish", 0.4))) else "call"
        secret = True if flip else ch.flag("secret-uri", 0.7)
        op.uri = (self.topics if op.kind == "publish" else self.procs)[0 if secret else 1]
        if op.kind == "call" and secret and not flip and ch.flag("called-through-a-prefix-registration", 0.25):
            op.uri = "%s.item%d" % (self.pfx, len(self.ops))
            self.run.probe("call-through-prefix-registration")
        op.reply = "error" if (direction == "error" or (not flip and op.kind == "call" and ch.flag("endpoint-raises", 0.35))) else "ok"
        if op.reply == "error" and not flip and ch.flag("exception-without-arguments", 0.3):
            op.reply = "error-bare"
        elif op.reply == "error" and not flip and ch.flag("ordinary-exception", 0.3):
            # not an ApplicationError: the library reports it under its own URI (wamp.error.runtime_error) - an error
            # URI like any other for the keyring (a default key covers it)
            op.reply = "error-plain"
        op.args = [op.tok, 42]
        op.kwargs = {"k": "KW-" + op.tok}
        if not flip and ch.flag("no-payload-at-all", 0.12):
            # a call / publish without arguments: the URI inside the ciphertext still binds the message, and the reply
            # travels the way the request came in
            op.args, op.kwargs = [], {}
            self.run.probe("operation-without-payload")
        elif not flip and ch.flag("nested-payload", 0.4):
            op.args = [op.tok, 42, {"items": ["N-" + op.tok, 1]}]
            op.kwargs = {"k": "KW-" + op.tok, "more": ["M-" + op.tok]}
        op.tamper = {}
        if flip:
            op.tamper[direction] = ("flip", self.mode[2])
        else:
            # ("progress": every progressive result of the call is tampered with in the same way - a swapped stream)
            for d in ("event", "invocation", "result", "error", "progress"):
                if ch.flag("tamper:" + d, 0.25):
                    op.tamper[d] = (ch.pick(("flip", "substitute", "relabel", "strip-enc"), "how"), ch.choose(400, "pos"))
        op.outcome = None
        self.ops.append(op)
        self.by_tok[op.tok] = op
        op.enc = {"request": self.resolve("orig", op.uri)}
        self.run.log("app", op.kind, op.uri, op.tok, sorted(op.tamper.items()), op.reply)
        if op.kind == "publish":
            self.call(lambda: self.o.session.publish(op.uri, *op.args, options=types.PublishOptions(acknowledge=False), **op.kwargs))
            op.w = None
        else:
            if not flip and ch.flag("call-with-options-object", 0.3):
                # the options-object variant of call(): a progress handler is registered although only a final result comes
                op.progress_seen = []
                op.progress_forwarded = 0
                op.progressive = ch.choose(3, "n-progressive-results", (3, 1, 1))
                opts = types.CallOptions(on_progress=lambda *a, **k: op.progress_seen.append((tuple(jsonish(list(a))), jsonish(k))))
                f = self.call(lambda: self.o.session.call(op.uri, *op.args, options=opts, **op.kwargs))
                self.run.probe("call-with-on_progress-option")
            else:
                f = self.call(self.o.session.call, op.uri, *op.args, **op.kwargs)
            op.w = self.fw.watch(f)
        self.settle()

    def wire_check(self, side, msg, op, enc_name):
        """not-in-clear: with a key for the URI (at the time of sending) the serialized message carries no plaintext token."""
        ser = side.t._rser
        data, _ = ser.serialize(msg)
        covered = enc_name is not None
        toks = [op.tok.encode(), ("KW-" + op.tok).encode(), ("RES-" + op.tok).encode(), ("ERR-" + op.tok).encode(), ("W-" + op.tok).encode()]
        leaked = [t for t in toks if t in data]
        if covered:
            if getattr(msg, "enc_algo", None) != "cryptobox":
                self.run.violate("C20.not-in-clear", "not-marked-cryptobox:%s" % type(msg).__name__, op.uri)
            if leaked:
                self.run.violate("C20.not-in-clear", "plaintext-on-the-wire:%s" % type(msg).__name__, repr(leaked))
        elif getattr(msg, "enc_algo", None):
            self.run.violate("C20.not-in-clear", "encrypted-without-key-for-uri", op.uri)

    def op_for_request(self, field, value):
        for op in self.ops:
            if getattr(op, field, None) == value:
                return op
        return None

    def collect(self):
        M = self.M
        side = self.o if self.unread(self.o) else self.r
        msg = side.inbox[side.cursor]
        side.cursor += 1
        if side is self.r and isinstance(msg, (M.Publish, M.Call)):
            return  # traffic originated by the responder session itself: not routed
        if isinstance(msg, M.Publish):
            op = self.by_tok_from_order("publish", msg)
            if op is None:
                return
            self.wire_check(side, msg, op, op.enc["request"])
            self.next_id += 1
            ev = M.Event(self.sub_ids[op.uri], self.next_id, args=msg.args, kwargs=msg.kwargs, payload=msg.payload, enc_algo=msg.enc_algo,
                         enc_key=msg.enc_key, enc_serializer=msg.enc_serializer)
            self.remember_cipher(msg.payload, op.uri)
            self.queue.append((self.r, ev, op, "event", op.enc["request"]))
        elif isinstance(msg, M.Call):
            op = self.by_tok_from_order("call", msg)
            if op is None:
                return
            op.call_id = msg.request
            self.wire_check(side, msg, op, op.enc["request"])
            self.next_id += 1
            op.inv_id = self.next_id
            via_pfx = op.uri not in self.reg_ids
            inv = M.Invocation(op.inv_id, self.reg_ids[self.pfx if via_pfx else op.uri], args=msg.args, kwargs=msg.kwargs, payload=msg.payload,
                               enc_algo=msg.enc_algo, enc_key=msg.enc_key, enc_serializer=msg.enc_serializer,
                               receive_progress=msg.receive_progress, procedure=op.uri if via_pfx else None)
            self.remember_cipher(msg.payload, op.uri)
            self.queue.append((self.r, inv, op, "invocation", op.enc["request"]))
        elif isinstance(msg, M.Yield):
            op = self.op_for_request("inv_id", msg.request)
            if op is None:
                return
            # a result travels the way the invocation came in: encrypted iff the invocation was (and then under
            # the key the responder holds for the procedure at that moment)
            enc_name = self.resolve_in(op.resp_model, op.uri) if op.inv_encrypted else None
            if not op.tamper.get("invocation"):
                self.wire_check(side, msg, op, enc_name)
            res = M.Result(op.call_id, args=msg.args, kwargs=msg.kwargs, payload=msg.payload, enc_algo=msg.enc_algo, enc_key=msg.enc_key,
                           enc_serializer=msg.enc_serializer, progress=msg.progress)
            self.remember_cipher(msg.payload, op.uri)
            self.queue.append((self.o, res, op, "progress" if msg.progress else "result", enc_name))
        elif isinstance(msg, M.Error):
            op = self.op_for_request("inv_id", msg.request)
            if op is None:
                return
            op.callee_error = msg.error
            enc_name = self.resolve_in(op.resp_model, msg.error)
            if op.reply.startswith("error") and not getattr(op, "expect_enc_error", False) and not op.tamper.get("invocation"):
                self.wire_check(side, msg, op, enc_name)
            err = M.Error(48, op.call_id, msg.error, args=msg.args, kwargs=msg.kwargs, payload=msg.payload, enc_algo=msg.enc_algo,
                          enc_key=msg.enc_key, enc_serializer=msg.enc_serializer)
            self.remember_cipher(msg.payload, msg.error)
            self.queue.append((self.o, err, op, "error", enc_name))

    def by_tok_from_order(self, kind, msg):
        # requests arrive in the order they were issued
        for op in self.ops:
            if op.kind == kind and not getattr(op, "_seen", False):
                op._seen = True
                return op
        return None

    def remember_cipher(self, payload, uri=None):
        if payload:
            self.cipher_pool.append((bytes(payload), uri))

    def forward(self):
        ch = self.run.ch
        M = self.M
        i = ch.choose(len(self.queue), "which")
        for j in range(i):
            # (a router keeps the order of what it forwards for one call to one peer: progressive results before the final one)
            if self.queue[j][2] is self.queue[i][2] and self.queue[j][0] is self.queue[i][0]:
                i = j
                break
        side, msg, op, direction, enc_name = self.queue.pop(i)
        envelope_uri = msg.error if direction == "error" else op.uri
        dec_name = self.resolve(side.name, envelope_uri)
        bad_key = bool(getattr(msg, "enc_algo", None)) and enc_name != dec_name
        if bad_key:
            self.run.probe("delivered-under-other-key:%s" % direction)
        how = op.tamper.get(direction)
        tampered = None
        if how is not None and getattr(msg, "enc_algo", None):
            kind, pos = how
            payload = bytes(msg.payload)
            if kind == "flip":
                p = pos % len(payload)
                msg.payload = payload[:p] + bytes([payload[p] ^ (1 << (pos % 8) if pos >= len(payload) else 0xFF)]) + payload[p + 1:]
                tampered = "flip"
            elif kind == "substitute":
                # a genuine ciphertext of *another URI* under the same keys (a replayed ciphertext of the
                # same URI is by design indistinguishable from the original and is not generated)
                own_uri = msg.error if direction == "error" else op.uri
                others = [c for c, u in self.cipher_pool if c != payload and u is not None and u != own_uri]
                if others:
                    msg.payload = others[pos % len(others)]
                    tampered = "substitute"
            elif kind == "relabel":
                # the envelope names another URI than the one inside the ciphertext
                if direction == "event":
                    msg.topic = "com.secret.other" if self.covered("com.secret.other") else None
                    tampered = "relabel" if msg.topic else None
                elif direction == "invocation":
                    msg.procedure = "com.secret.other"
                    tampered = "relabel"
                elif direction == "error":
                    msg.error = "com.secret.othererror"
                    tampered = "relabel"
            elif kind == "strip-enc":
                pass
            if tampered:
                self.run.fault("tamper:%s:%s" % (direction, tampered))
                op.tampered = getattr(op, "tampered", []) + [(direction, tampered)]
        n_h, n_e = len(self.handler_calls), len(self.endpoint_calls)
        op._n_prog = len(getattr(op, "progress_seen", None) or [])
        if direction == "event":
            op.event_encrypted = bool(getattr(msg, "enc_algo", None))
        self.delivering_op = op
        err = self.deliver_to(side, msg)
        self.settle()
        if direction == "invocation":
            op.inv_encrypted = bool(getattr(msg, "enc_algo", None))
            # the reply is produced now, under the responder's keys as they are now
            op.resp_model = dict(self.model["resp"])
        if err is not None:
            self.run.violate("C20.explicit-error", "delivery-raised:%s:%s" % (direction, type(err).__name__), repr(err))
            return
        self.judge(op, direction, tampered, n_h, n_e, bad_key)
        if tampered and direction in ("event", "invocation") and ch.flag("tampered-message-delivered-again", 0.35):
            # the same altered message arrives once more (a router retrying, an attacker insisting): rejected again
            n_h, n_e = len(self.handler_calls), len(self.endpoint_calls)
            if direction == "invocation":
                self.next_id += 1
                # (a request id of its own: its reply belongs to no call)
                msg = M.Invocation(self.next_id, msg.registration, payload=msg.payload, enc_algo=msg.enc_algo, enc_key=msg.enc_key,
                                   enc_serializer=msg.enc_serializer, procedure=msg.procedure, receive_progress=msg.receive_progress)
            self.run.fault("tamper:%s:again" % direction)
            err = self.deliver_to(side, msg)
            self.settle()
            if err is not None:
                self.run.violate("C20.explicit-error", "delivery-raised:%s:%s" % (direction, type(err).__name__), repr(err))
            elif len(self.handler_calls) != n_h or len(self.endpoint_calls) != n_e:
                self.run.violate("C20.exact-or-nothing", "application-invoked-for-tampered-%s-delivered-again:%s" % (direction, tampered),
                                 repr((self.handler_calls[n_h:], self.endpoint_calls[n_e:]))[:200])

    def judge(self, op, direction, tampered, n_h, n_e, bad_key):
        run = self.run
        exp_args, exp_kwargs = tuple(jsonish(op.args)), jsonish(op.kwargs)
        new_h = self.handler_calls[n_h:]
        new_e = self.endpoint_calls[n_e:]
        if direction == "event":
            if tampered or bad_key:
                if new_h:
                    run.violate("C20.exact-or-nothing", "handler-invoked-for-tampered-event:%s" % (tampered or "wrong-key"), repr(new_h)[:160])
                else:
                    run.probe("tampered-event-dropped")
            else:
                want = [(op.uri, exp_args, exp_kwargs)] * self.n_handlers
                if self.cfg.get("mutating_handlers") and not op.event_encrypted:
                    # (an event that travelled in clear is one set of objects for all handlers - outside this property:
                    # the first handler is judged)
                    want, new_h = want[:1], new_h[:1]
                if new_h != want:
                    run.violate("C20.exact-or-nothing", "event-payload-differs-or-missing", repr(new_h)[:200])
                else:
                    run.probe("event-recovered")
        elif direction == "invocation":
            if tampered or bad_key:
                if new_e:
                    run.violate("C20.exact-or-nothing", "endpoint-invoked-for-tampered-invocation:%s" % (tampered or "wrong-key"), repr(new_e)[:160])
                op.expect_enc_error = True
            else:
                if len(new_e) != 1 or new_e[0] != (op.uri, exp_args, exp_kwargs):
                    run.violate("C20.exact-or-nothing", "invocation-payload-differs-or-missing", repr(new_e)[:200])
        elif direction == "progress":
            new_p = op.progress_seen[op._n_prog:]
            i = op.progress_forwarded
            op.progress_forwarded += 1
            if tampered or bad_key or getattr(op, "expect_enc_error", False):
                if new_p:
                    run.violate("C20.exact-or-nothing", "progress-handler-invoked-under-wrong-key", repr(new_p)[:160])
                else:
                    run.probe("undecodable-progressive-result-dropped")
            elif new_p != [(("PROG%d-%s" % (i, op.tok),), {"n": i})]:
                run.violate("C20.exact-or-nothing", "progressive-result-differs-or-missing", repr(new_p)[:200])
            else:
                run.probe("progressive-result-recovered")
        elif direction in ("result", "error"):
            st = op.w.state()
            if st[0] == "pending":
                run.violate("C20.explicit-error", "call-pending-after-%s" % direction, op.tok)
                return
            from autobahn.wamp.exception import ApplicationError
            prior = getattr(op, "expect_enc_error", False)
            if tampered or prior or bad_key:
                if st[0] != "err" or not isinstance(st[1], ApplicationError) or st[1].error not in ENC_ERRORS:
                    # an upstream rejection may itself travel encrypted: what matters is that the call fails and
                    # never yields altered payload
                    if st[0] == "ok":
                        run.violate("C20.explicit-error", "tampered-%s-accepted:%s" % (direction, tampered or ("upstream" if prior else "wrong-key")),
                                    repr(st[1])[:120])
                    elif not isinstance(st[1], ApplicationError):
                        run.violate("C20.explicit-error", "non-application-error:%s" % type(st[1]).__name__, "")
                    else:
                        run.probe("call-failed-with:%s" % st[1].error)
                else:
                    run.probe("encryption-error-reported")
            elif direction == "result":
                if st[0] != "ok" or jsonish(st[1]) != "RES-" + op.tok:
                    run.violate("C20.exact-or-nothing", "result-differs", repr(st)[:160])
                else:
                    run.probe("result-recovered")
            else:
                x = st[1] if st[0] == "err" else None
                want_uri = "com.secret.error" if op.uri.startswith("com.secret") else "com.public.error"
                want_args, want_kw = (("ERR-" + op.tok,), {"why": "W-" + op.tok}) if op.reply == "error" else ((), {})
                if op.reply == "error-plain":
                    want_uri, want_args, want_kw = "wamp.error.runtime_error", ("ERR-" + op.tok,), {}
                got_kw = dict(jsonish(x.kwargs)) if isinstance(x, ApplicationError) else {}
                tb = got_kw.pop("traceback", None)
                if isinstance(x, ApplicationError) and (tb is not None) != bool(self.cfg["traceback"]):
                    run.violate("C20.exact-or-nothing", "traceback-%s" % ("missing" if tb is None else "although-off"), op.tok)
                if not isinstance(x, ApplicationError) or x.error != want_uri or tuple(jsonish(list(x.args))) != want_args or got_kw != want_kw:
                    run.violate("C20.exact-or-nothing", "error-differs", repr(st)[:200])
                else:
                    run.probe("error-recovered")

    def drain(self):
        self.draining = True
        guard = 0
        while guard < 300:
            guard += 1
            self.settle()
            if self.unread(self.o) or self.unread(self.r):
                self.collect()
            elif self.queue:
                self.forward()
            else:
                break

    def check_step(self):
        DuoWorld.check_step(self)
        for where, exc in self.escaped:
            self.run.probe("escaped:%s" % type(exc).__name__)
        self.escaped = []

    def final(self):
        for op in self.ops:
            if op.kind == "call" and op.w.state()[0] == "pending":
                self.run.violate("C20.explicit-error", "call-still-pending", "%s tamper=%r" % (op.tok, op.tamper))

    def nontrivial(self):
        return len(self.ops) >= 1

    def sample(self):
        return {"config": {k: repr(v) for k, v in self.cfg.items()}, "mode": self.mode,
                "ops": [{"kind": o.kind, "uri": o.uri, "tamper": repr(o.tamper), "reply": o.reply,
                         "outcome": repr(o.w.state())[:80] if o.w else None} for o in self.ops]}
