"""
C07 - the opening handshake admits exactly the valid peers and never crashes.

Modes:
  pair    real client <-> real server over the option matrix (spec versions x server versions,
          subprotocols, headers, origin, user agent/server strings, compression offers): both
          ends must reach OPEN under every segmentation.
  server  real server vs scripted client: a valid baseline request with exactly one mutation of
          known verdict (or an arbitrary octet string), delivered under a seeded segmentation.
  client  real client vs scripted server: likewise for the response.
  limit   one real server factory with maxConnections and several scripted clients whose TCP
          connects, request segments, onConnect continuations and drops interleave: never more
          than maxConnections peers admitted at once; a request is admitted iff the connections
          alive when it is processed (itself included) do not exceed the limit.
"""

import base64
import hashlib

from sim.core import SetupViolation, HarnessError
from sim.ref_ws import SenderMonitor
from sim.seams import SEAMS
from worlds.ws import WS_MAGIC, Ep, WsWorld, exc_site, ws_classes

PROP = "C07"
MAX_STEPS = 120
MODES = ["server", "client", "pair", "server", "client", "limit"]

URLS = [("ws://localhost:9000", "localhost", 9000, "/"),
        ("ws://example.com/chat", "example.com", 80, "/chat"),
        ("ws://example.com:8080/a/b?x=1&y=2", "example.com", 8080, "/a/b?x=1&y=2"),
        ("ws://127.0.0.1:9000/a%20b", "127.0.0.1", 9000, "/a%20b"),
        ("ws://host.example:65535/?q", "host.example", 65535, "/?q"),
        ("ws://[::1]:9000/v6", "[::1]", 9000, "/v6")]


def accept_for(key):
    return base64.b64encode(hashlib.sha1(key + WS_MAGIC).digest())


def parse_http(data):
    """(start line, [(name_lower, value)]) of a header block (bytes)."""
    head = data.split(b"\r\n\r\n", 1)[0]
    lines = head.split(b"\r\n")
    hdrs = []
    for ln in lines[1:]:
        if b":" in ln:
            k, v = ln.split(b":", 1)
            hdrs.append((k.strip().lower(), v.strip()))
    return lines[0], hdrs


def hget(hdrs, name):
    return [v for k, v in hdrs if k == name]


class World(WsWorld):
    PROP = PROP

    def __init__(self, run, mode="server"):
        WsWorld.__init__(self, run)
        self.P = PROP
        self.force = {}
        self.mode = mode
        self.verdict = None  # 'valid' / 'invalid' / 'unknown'
        self.mutation = None
        self.sent_all = False
        self.to_send = b""

    # =================================================================================================
    def build(self):
        self.make_reactor(0.0)
        if self.mode == "pair":
            self.build_pair_mode()
        elif self.mode == "server":
            self.build_server_mode()
        elif self.mode == "limit":
            self.build_limit_mode()
        else:
            self.build_client_mode()

    # --- connection limit: several clients, one factory -------------------------------------------------------
    def build_limit_mode(self):
        ch = self.run.ch
        aw, RecServer, RecClient = ws_classes()
        cfg = self.cfg = {"maxConn": ch.pick((1, 2, 3), "maxConnections"), "n": 2 + ch.choose(4, "nclients")}
        cfg["async"] = [ch.flag("async-onConnect", 0.4) for _ in range(cfg["n"])]
        fac = aw.WebSocketServerFactory("ws://localhost:9000", **self.fw.factory_kw(self.reactor))
        fac.setProtocolOptions(openHandshakeTimeout=0, maxConnections=cfg["maxConn"])
        fac.protocol = RecServer
        self.fac = fac
        self.conns = []
        self.conn_of = {}
        for k in range(cfg["n"]):
            name = "E%d" % k
            t, p, peer, e2p, p2e = self.fw.connect_raw(self.run, self.reactor, fac, True, name=name)
            peer.name = "P%d" % k
            e = Ep(self, name, True)
            e.t, e.p = t, p
            p.ep = e
            t.observers.append(e.on_write)
            e.monitor = None
            conn = LimitConn()
            conn.k, conn.e, conn.peer, conn.p2e = k, e, peer, p2e
            conn.to_send = self.client_request_bytes()
            conn.started = conn.dropped = False
            conn.limit = None
            conn.expect_admit = None
            conn.pending = None
            conn.decided = None
            e.hooks["on_connect"] = lambda req, conn=conn: self.limit_on_connect(conn)
            t.observers.append(lambda data, *a, conn=conn: self.limit_on_write(conn, data))
            self.conns.append(conn)
            self.conn_of[e] = conn
        self.mutation = "limit"
        self.verdict = "n/a"
        self.max_open_seen = 0
        # the application may change the limit while connections exist (0 lifts it): the new value is in force for every
        # handshake processed from then on
        self.reconf_left = ch.choose(3, "n-limit-reconfigurations", (5, 2, 1))
        self.run.log("cfg", "limit", sorted((k, repr(v)) for k, v in cfg.items()))

    def eff_limit(self, conn=None):
        # setProtocolOptions() sets the defaults for *new* protocol instances: a connection is judged by the limit in
        # force when it was accepted
        lim = self.cfg["maxConn"] if conn is None or conn.limit is None else conn.limit
        return lim or 10 ** 9

    def limit_reconfigure(self):
        self.reconf_left -= 1
        new = self.run.ch.pick((0, 1, 2, 3, 5), "new-maxConnections", (3, 1, 1, 1, 1))
        self.run.fault("limit:reconfigured")
        self.run.log("app", "setProtocolOptions(maxConnections=%d)" % new, "was", self.cfg["maxConn"])
        self.limit_lowered = True  # (connections accepted under different limits coexist from now on)
        self.fw.call(self, lambda: self.fac.setProtocolOptions(maxConnections=new))
        self.cfg["maxConn"] = new

    limit_lowered = False

    def live(self):
        """connections the factory has accepted and not yet lost"""
        return len([c for c in self.conns if c.started and c.e.onclose_count == 0])

    def limit_on_connect(self, conn):
        # the server decided to admit (the limit check is behind it): judged against the connections alive right now
        live = self.live()
        conn.decided = "admit"
        self.run.log("limit", "admitted", conn.k, "live", live)
        if live > self.eff_limit(conn):
            self.run.violate(self.P + ".accept-iff-valid", "invalid-request-accepted:over-connection-limit",
                             "connection %d admitted with %d connections alive, maxConnections=%d" % (conn.k, live, self.eff_limit(conn)))
        if self.cfg["async"][conn.k]:
            conn.pending = self.fw.new_future(self)
            self.run.probe("limit:onConnect-pending")
            return conn.pending
        return None

    def limit_on_write(self, conn, data):
        head = bytes(data[:12])
        if conn.decided is None and head.startswith(b"HTTP/1.1 ") and head[9:12] not in (b"101", b"503"):
            # every client of this mode sends a valid request: the only refusal there can be is the connection limit's
            conn.decided = "error"
            self.run.violate(self.P + ".accept-iff-valid", "valid-request-rejected:limit-mode:%s" % head[9:12].decode("ascii", "replace"),
                             "connection %d: %r" % (conn.k, bytes(data[:80])))
        if conn.decided is None and bytes(data[:12]) == b"HTTP/1.1 503":
            live = self.live()
            conn.decided = "refuse"
            self.run.log("limit", "refused", conn.k, "live", live)
            if live <= self.eff_limit(conn):
                self.run.violate(self.P + ".accept-iff-valid", "valid-request-rejected:below-connection-limit",
                                 "connection %d refused with %d connections alive, maxConnections=%d" % (conn.k, live, self.eff_limit(conn)))

    def limit_actions(self):
        acts = []
        for conn in self.conns:
            k = conn.k
            if not conn.started:
                acts.append((3.0, "accept:%d" % k, lambda conn=conn: self.limit_accept(conn)))
                continue
            if conn.dropped:
                continue
            if conn.to_send:
                acts.append((4.0, "peer-send:%d" % k, lambda conn=conn: self.limit_send(conn)))
            if conn.pending is not None:
                acts.append((2.5, "resolve-onConnect:%d" % k, lambda conn=conn: self.limit_resolve(conn)))
            acts.append((0.6, "peer-drop:%d" % k, lambda conn=conn: self.limit_drop(conn)))
        if self.reconf_left > 0 and any(c.started for c in self.conns):
            acts.append((1.0, "app-changes-maxConnections", self.limit_reconfigure))
        return acts

    def limit_accept(self, conn):
        conn.started = True
        conn.limit = self.cfg["maxConn"]
        self.eps.append(conn.e)
        self.pipes.append((conn.p2e, conn.e))
        self.start(conn.e)

    def limit_send(self, conn):
        ch = self.run.ch
        n = len(conn.to_send)
        k = n if ch.flag("send-all", 0.5) else 1 + ch.choose(n, "send-k")
        data, conn.to_send = conn.to_send[:k], conn.to_send[k:]
        conn.peer.send(data)

    def limit_resolve(self, conn):
        f, conn.pending = conn.pending, None
        self.fw.call(self, self.fw.resolve_future, f, None)

    def limit_drop(self, conn):
        conn.dropped = True
        self.run.fault("limit:peer-drop")
        if self.run.ch.flag("rst", 0.4):
            conn.peer.rst()
        else:
            conn.peer.fin()

    def limit_invariant(self):
        n_open = len([c for c in self.conns if c.started and c.e.p._st in (3, 2)])
        self.max_open_seen = max(self.max_open_seen, n_open)
        if n_open > self.eff_limit() and not self.limit_lowered and not getattr(self, "_limit_bad", False):
            self._limit_bad = True
            self.run.violate(self.P + ".accept-iff-valid", "more-peers-admitted-than-maxConnections",
                             "%d open at once, maxConnections=%d" % (n_open, self.cfg["maxConn"]))

    def final_limit(self):
        run = self.run
        for conn in self.conns:
            e = conn.e
            opened = any(ev[0] == "onOpen" for ev in e.events)
            if conn.decided == "admit":
                if opened:
                    run.probe("limit:admitted")
                elif not conn.dropped:
                    run.violate(self.P + ".accept-iff-valid", "valid-request-rejected:admitted-but-never-opened", "connection %d" % conn.k)
            elif conn.decided == "refuse":
                run.probe("limit:refused")
                if opened:
                    run.violate(self.P + ".accept-iff-valid", "invalid-request-accepted:refused-then-opened", "connection %d" % conn.k)
                if e.p._st != 0 and not e.t.is_gone():
                    run.violate(self.P + ".reject-is-clean", "not-dropped:limit", "connection %d" % conn.k)
            elif conn.started and e.rx_http_done and not conn.dropped:
                run.violate(self.P + ".accept-iff-valid", "valid-request-rejected:no-verdict", "connection %d: %r" % (conn.k, bytes(e.http_out[:40])))
        if self.max_open_seen >= 2:
            run.probe("limit:two-or-more-open-at-once")

    # --- pair ------------------------------------------------------------------------------------------
    def build_pair_mode(self):
        ch = self.run.ch
        aw, RecServer, RecClient = ws_classes()
        cfg = self.cfg = {}
        cfg["spec"] = ch.pick((18, 10, 11, 12, 13, 14, 15, 16, 17), "spec")
        cfg["sversions"] = ch.pick(([8, 13], [13], [8], [13, 8]), "sversions")
        cfg["cprotos"] = ch.pick((None, ["a"], ["a", "b"], ["b", "a"], ["x.y-z", "b"]), "cprotos")
        # ("foreign": the server application names a subprotocol the client never offered - in either form of the
        # onConnect() result; the server must not complete the handshake with it)
        cfg["sprotos"] = ch.pick(("first", "none", "b-if-offered", "foreign"), "spolicy", (3, 3, 3, 1.5))
        cfg["cheaders"] = ch.pick((None, {"X-A": "1"}, {"X-A": "1", "Cookie": "k=v; l=w"}), "cheaders")
        cfg["sheaders"] = ch.pick((None, {"X-S": "1"}, {"X-S": ["1", "2"], "Set-Cookie": "a=b"}), "sheaders")
        cfg["onconnect_headers"] = ch.flag("onconnect-headers", 0.3)
        cfg["origin"] = ch.pick((None, "http://good.com", "https://good.com:8443", "null"), "origin")
        cfg["allowed"] = ch.pick((None, ["http://good.com:80", "https://good.com:8443"], ["*://*.com:*"]), "allowed")
        cfg["useragent"] = ch.pick(("default", None, "UA/1.0 (x; y)"), "useragent")
        cfg["server"] = ch.pick(("default", None, "Srv/2"), "serverstr")
        cfg["deflate"] = ch.pick(("none", "offer+accept", "offer-only", "two-offers"), "deflate", (3, 2, 1, 1))
        cfg["url"] = ch.choose(len(URLS), "url")
        url, host, port, resource = URLS[cfg["url"]]
        kw = self.fw.factory_kw(self.reactor)
        skw = dict(kw)
        if cfg["server"] != "default":
            skw["server"] = cfg["server"]
        sfac = aw.WebSocketServerFactory("ws://%s:%d" % (host, port), protocols=["a", "b", "x.y-z"],
                                         headers=cfg["sheaders"], **skw)
        sopts = dict(versions=list(cfg["sversions"]), openHandshakeTimeout=0)
        if cfg["allowed"] is not None:
            sopts["allowedOrigins"] = cfg["allowed"]
            sopts["allowNullOrigin"] = True
        else:
            sopts["allowNullOrigin"] = True
        ckw = dict(kw)
        if cfg["useragent"] != "default":
            ckw["useragent"] = cfg["useragent"]
        cfac = aw.WebSocketClientFactory(url, origin=cfg["origin"], protocols=cfg["cprotos"], headers=cfg["cheaders"], **ckw)
        copts = dict(version=cfg["spec"], openHandshakeTimeout=0)
        if cfg["deflate"] != "none":
            from autobahn.websocket.compress import (PerMessageDeflateOffer, PerMessageDeflateOfferAccept,
                                                     PerMessageDeflateResponseAccept)
            offers = [PerMessageDeflateOffer()]
            if cfg["deflate"] == "two-offers":
                offers = [PerMessageDeflateOffer(request_max_window_bits=10), PerMessageDeflateOffer()]
            copts["perMessageCompressionOffers"] = offers
            copts["perMessageCompressionAccept"] = lambda r: PerMessageDeflateResponseAccept(r)
            if cfg["deflate"] != "offer-only":
                sopts["perMessageCompressionAccept"] = lambda offers: PerMessageDeflateOfferAccept(offers[0])
        if len(cfg["sversions"]) > 1 and ch.flag("versions-narrowed-then-widened", 0.25):
            # the application configures the factory in two steps: first one version only, then the full list - the last
            # valid configuration is the one in force
            sfac.setProtocolOptions(versions=[list(cfg["sversions"])[ch.choose(len(cfg["sversions"]), "narrow-to")]])
            self.run.probe("server-versions-reconfigured")
        sfac.setProtocolOptions(**sopts)
        cfac.setProtocolOptions(**copts)
        self.refused_reconfiguration(sfac, dict(versions=[13, 99]))
        self.refused_reconfiguration(cfac, dict(version=99))
        c, s = self.build_pair(cfac, sfac)

        def on_connect(req):
            proto = None
            if cfg["sprotos"] == "first" and req.protocols:
                proto = req.protocols[0]
            elif cfg["sprotos"] == "b-if-offered" and "b" in req.protocols:
                proto = "b"
            elif cfg["sprotos"] == "foreign":
                proto = "never-offered.v9"
                self.run.probe("server-application-names-a-foreign-subprotocol")
            if cfg["onconnect_headers"]:
                return (proto, {"X-From-OnConnect": "yes"})
            return proto
        s.hooks["on_connect"] = on_connect
        self.run.log("cfg", "pair", sorted((k, repr(v)) for k, v in cfg.items()))
        proto_version = {10: 8, 11: 8, 12: 8}.get(cfg["spec"], 13)
        self.compatible = proto_version in cfg["sversions"]
        self.expect_url = (host, port, resource)
        self.start(s)
        self.start(c)

    def refused_reconfiguration(self, fac, bad):
        """(in part of the runs) the application asks for a configuration the library refuses: the call raises, and the
        factory goes on with the configuration it had"""
        if not self.run.ch.flag("refused-reconfiguration", 0.15):
            return
        try:
            fac.setProtocolOptions(**bad)
        except Exception as e:  # noqa
            self.run.probe("reconfiguration-refused")
            self.run.log("app", "setProtocolOptions refused", sorted(bad), type(e).__name__)
        else:
            raise SetupViolation("invalid-configuration-accepted", repr(sorted(bad.items())))

    # --- server vs scripted client ----------------------------------------------------------------------------
    def build_server_mode(self):
        ch = self.run.ch
        aw, RecServer, RecClient = ws_classes()
        cfg = self.cfg = {
            "versions": ch.pick(([8, 13], [13]), "versions"),
            "allowed": ch.pick((None, ["http://good.com:80"], ["https://*.good.com:443", "http://good.com:8080"]), "allowed"),
            "allowNull": ch.flag("allowNull"),
            "webStatus": ch.flag("webStatus", 0.6),
            "maxConn": ch.pick((0, 1, 2), "maxConnections", (4, 1, 1)),
            "protocols": ch.flag("sprotocols"),
            "deflate": ch.flag("deflate", 0.3),
            "others": ch.choose(3, "other-connections", (4, 2, 1)),
            "externalPort": ch.pick((None, 9000, 8443), "externalPort", (4, 1, 1)),
            "oht": ch.pick((0, 5), "openHandshakeTimeout"),
        }
        fac = aw.WebSocketServerFactory("ws://localhost:9000", externalPort=cfg["externalPort"],
                                        **self.fw.factory_kw(self.reactor))
        opts = dict(versions=list(cfg["versions"]), openHandshakeTimeout=cfg["oht"], webStatus=cfg["webStatus"],
                    maxConnections=cfg["maxConn"], allowNullOrigin=cfg["allowNull"])
        if cfg["allowed"] is not None:
            opts["allowedOrigins"] = cfg["allowed"]
        if cfg["deflate"]:
            from autobahn.websocket.compress import PerMessageDeflateOffer, PerMessageDeflateOfferAccept
            opts["perMessageCompressionAccept"] = lambda offers: PerMessageDeflateOfferAccept(offers[0]) \
                if offers and isinstance(offers[0], PerMessageDeflateOffer) else None
        fac.setProtocolOptions(**opts)
        self.refused_reconfiguration(fac, dict(versions=[8, 14]))
        # other connections already counted by the factory (connection limit)
        fac.countConnections = cfg["others"]
        e, peer = self.build_raw(fac, True)
        e.monitor = None
        if cfg["protocols"]:
            e.hooks["on_connect"] = lambda req: req.protocols[0] if req.protocols else None
        self.start(e)
        self.run.log("cfg", "server", sorted((k, repr(v)) for k, v in cfg.items()))
        self.make_request()
        self.to_send = self.request

    def origin_allowed(self, origin):
        """Reference origin policy: whole-origin match of scheme://host:port (default ports filled
        in) against the wildcard list; 'null' only if allowNullOrigin."""
        cfg = self.cfg
        if origin is None:
            return True
        if origin.lower() == "null" or origin.lower().startswith("file:"):
            return cfg["allowNull"]
        allowed = cfg["allowed"] if cfg["allowed"] is not None else ["*"]
        import fnmatch
        from urllib.parse import urlsplit
        u = urlsplit(origin)
        port = u.port if u.port is not None else {"http": 80, "https": 443}.get(u.scheme.lower())  # (an explicit port 0 is a port)
        full = "%s://%s:%s" % (u.scheme.lower(), u.hostname, port)
        return any(fnmatch.fnmatchcase(full, pat) for pat in allowed)

    def make_request(self):
        ch = self.run.ch
        cfg = self.cfg
        key = base64.b64encode(SEAMS.urandom(16))
        version = ch.pick(cfg["versions"], "reqversion")
        hdr = [("Host", "localhost:9000"), ("Upgrade", "websocket"), ("Connection", "Upgrade"),
               ("Sec-WebSocket-Key", key.decode()), ("Sec-WebSocket-Version", str(version))]
        origin_key = "Origin" if version >= 13 else "Sec-WebSocket-Origin"
        origin = ch.pick((None, "http://good.com", "http://good.com:8080", "https://sub.good.com"), "origin")
        if origin:
            hdr.append((origin_key, origin))
        protos = ch.pick((None, "a", "a, b"), "reqprotos")
        if protos:
            hdr.append(("Sec-WebSocket-Protocol", protos))
        if ch.flag("offer-deflate", 0.4):
            hdr.append(("Sec-WebSocket-Extensions", "permessage-deflate; client_max_window_bits"))
        line = "GET /chat?x=1 HTTP/1.1"
        valid = self.origin_allowed(origin)
        if cfg["externalPort"] not in (None, 9000):
            valid = False  # Host port does not match the external port
        limit_hit = cfg["maxConn"] > 0 and cfg["others"] + 1 > cfg["maxConn"]
        if limit_hit:
            valid = False
        mut = ch.pick(MUTATIONS_REQ, "mutation", [6] + [1] * (len(MUTATIONS_REQ) - 1))
        self.mutation = mut
        body_after = b""
        raw_override = None
        if mut == "none":
            pass
        elif mut == "case-variation":
            hdr = [(k.upper() if i % 2 else k.lower(), v) for i, (k, v) in enumerate(hdr)]
            hdr = [(k, "WebSocket" if k.lower() == "upgrade" else v) for k, v in hdr]
        elif mut == "connection-list":
            hdr = [(k, "keep-alive, Upgrade" if k == "Connection" else v) for k, v in hdr]
        elif mut == "extra-headers":
            hdr.insert(2, ("X-Extra", "a" * ch.pick((1, 100, 4000), "xlen")))
            hdr.append(("Cookie", "a=b; c=d"))
        elif mut == "frames-follow":
            body_after = b"\x81\x80\x00\x00\x00\x00"
        elif mut == "method":
            line = ch.pick(("POST", "PUT", "HEAD", "get"), "method") + " /chat HTTP/1.1"
            valid = False
        elif mut == "http-version":
            line = "GET /chat " + ch.pick(("HTTP/1.0", "HTTP/2.0", "HTTP/0.9", "HTTPS/1.1", "HTTP/1.1/x"), "httpv")
            valid = False
        elif mut == "request-line-short":
            line = ch.pick(("GET /chat", "GET", "", "GET  HTTP/1.1 extra words"), "rl")
            valid = False
        elif mut == "fragment":
            line = "GET /chat#frag HTTP/1.1"
            valid = False
        elif mut.startswith("missing:"):
            name = mut.split(":", 1)[1]
            hdr = [(k, v) for k, v in hdr if k.lower() != name]
            valid = False
        elif mut.startswith("dup:"):
            name = mut.split(":", 1)[1]
            for k, v in list(hdr):
                if k.lower() == name:
                    hdr.append((k, v))
            if name in [k.lower() for k, v in hdr]:
                valid = False
            else:
                self.mutation = "none"  # header absent in this baseline: nothing duplicated
        elif mut == "upgrade-wrong":
            hdr = [(k, ch.pick(("h2c", "websockets", "web socket", ""), "upg") if k == "Upgrade" else v) for k, v in hdr]
            valid = False
        elif mut == "connection-wrong":
            hdr = [(k, ch.pick(("keep-alive", "close", "Upgrades"), "conn") if k == "Connection" else v) for k, v in hdr]
            valid = False
        elif mut == "key-bad":
            bad = ch.pick((key[:-4].decode() + "==", key.decode() + "AA", key[:-2].decode() + "=A", "!" + key[1:].decode(),
                           key[:-2].decode(), "", key[:10].decode() + " " + key[11:].decode()), "badkey")
            hdr = [(k, bad if k == "Sec-WebSocket-Key" else v) for k, v in hdr]
            valid = False
        elif mut == "version-bad":
            bad = ch.pick(("7", "0", "14", "12", "-13", "13.0", "thirteen", "", "13, 8"), "badver")
            hdr = [(k, bad if k == "Sec-WebSocket-Version" else v) for k, v in hdr]
            valid = False
            if bad == "13, 8":
                pass
        elif mut == "origin-bad":
            # (the last four END with an allowed origin, as the others begin with or contain one: the whole origin counts)
            bad = ch.pick(("http://evil.com", "http://good.com.evil.com", "http://evilgood.com", "https://good.com",
                           "http://good.com:81", "null", "http://good.com@evil.com", "ftp://good.com",
                           "evil+http://good.com:80", "xhttp://good.com:80", "xhttp://good.com:8080", "evil.http://good.com:8080",
                           "http://good.com:0"), "badorigin")
            hdr = [(k, v) for k, v in hdr if k != origin_key] + [(origin_key, bad)]
            valid = valid_base(self, limit_hit) and self.origin_allowed(bad)
        elif mut == "origin-nohost":
            hdr = [(k, v) for k, v in hdr if k != origin_key] + [(origin_key, ch.pick(("http://", "://x", "http:///path"), "nohost"))]
            valid = False
        elif mut == "dup-protocol":
            hdr = [(k, v) for k, v in hdr if k != "Sec-WebSocket-Protocol"] + [("Sec-WebSocket-Protocol", "a, b, a")]
            valid = False
        elif mut == "host-bad-port":
            hdr = [(k, "localhost:http" if k == "Host" else v) for k, v in hdr]
            valid = False
        elif mut == "no-upgrade-status-page":
            hdr = [(k, v) for k, v in hdr if k.lower() not in ("upgrade",)]
            q = ch.pick(("", "?redirect=http%3A%2F%2Fexample.com%2F", "?redirect=http%3A%2F%2Fexample.com%2F&after=3",
                         "?redirect=http%3A%2F%2Fexample.com%2F&after=abc", "?redirect=http%3A%2F%2F%5B%3A%3A1&after=1",
                         "?redirect=%00%ff&after=-1", "?redirect=&after=", "?redirect=http%3A%2F%2Fex%20ample.com%3A99999%2F",
                         "?after=5", "?redirect=//x&after=1e3"), "statusq")
            line = "GET /%s HTTP/1.1" % q
            valid = False
            self.run.probe("status-page-branch")
        elif mut == "non-ascii":
            hdr.insert(1, ("X-Bin", "caf\u00e9 \u00ff"))
            raw_override = "latin1"
        elif mut == "bare-lf":
            raw_override = "lf"
            valid = False  # no CRLFCRLF terminator ever arrives
        elif mut == "truncated":
            valid = False
        elif mut == "garbage":
            valid = False
        elif mut == "oversized":
            hdr.insert(1, ("X-Big", "b" * ch.pick((8000, 70000, 200000), "big")))
        lines = [line] + ["%s: %s" % kv for kv in hdr]
        if raw_override == "lf":
            req = ("\n".join(lines) + "\n\n").encode("latin1")
        else:
            req = ("\r\n".join(lines) + "\r\n\r\n").encode("latin1")
        if mut == "truncated":
            req = req[:ch.choose(len(req) - 3, "cut")]
        elif mut == "garbage":
            import random as _r
            req = _r.Random(ch.choose(1 << 16, "gseed")).randbytes(ch.pick((1, 10, 300, 5000), "glen"))
            if ch.flag("garbage-with-terminator"):
                req += b"\r\n\r\n"
            self.verdict = "invalid"
        self.request = req + body_after
        self.key = key
        self.req_protocols = [p.strip() for p in protos.split(",")] if protos else []
        self.req_ext_offered = any(k.lower() == "sec-websocket-extensions" for k, v in hdr)
        self.verdict = "valid" if valid else "invalid"
        if mut in ("non-ascii", "oversized", "frames-follow", "extra-headers", "connection-list", "case-variation", "none"):
            self.verdict = "valid" if valid else "invalid"
        self.run.log("mutation", "server", self.mutation, self.verdict)
        self.run.abstract("mut", self.mutation, self.verdict)

    # --- client vs scripted server ---------------------------------------------------------------------------------
    def build_client_mode(self):
        ch = self.run.ch
        aw, RecServer, RecClient = ws_classes()
        cfg = self.cfg = {
            "url": ch.choose(len(URLS), "url"),
            "protocols": ch.pick((None, ["a"], ["a", "b"]), "protocols"),
            "deflate": ch.pick(("none", "offer", "offer-deny"), "deflate", (3, 2, 1)),
            "origin": ch.pick((None, "http://me.example"), "origin"),
            "spec": ch.pick((18, 13, 10), "spec", (4, 1, 1)),
            "async_onconnect": ch.flag("async-onConnect", 0.15),
        }
        cfg.update(self.force)
        url, host, port, resource = URLS[cfg["url"]]
        self.expect_url = (host, port, resource)
        fac = aw.WebSocketClientFactory(url, origin=cfg["origin"], protocols=cfg["protocols"],
                                        **self.fw.factory_kw(self.reactor))
        opts = dict(openHandshakeTimeout=0, version=cfg["spec"])
        if cfg["deflate"] != "none":
            from autobahn.websocket.compress import PerMessageDeflateOffer, PerMessageDeflateResponseAccept
            opts["perMessageCompressionOffers"] = [PerMessageDeflateOffer()]
            if cfg["deflate"] == "offer":
                opts["perMessageCompressionAccept"] = lambda r: PerMessageDeflateResponseAccept(r)
            else:
                opts["perMessageCompressionAccept"] = lambda r: None
        fac.setProtocolOptions(**opts)
        cfg["failed_retarget"] = ch.flag("failed-retarget", 0.2)
        if cfg["failed_retarget"]:
            # the application tried to point the factory at another URL, the library refused it: the factory still
            # has its URL, and that is where the next connection must go
            bad = ch.pick(("ws://other.example:9999/bad#fragment", "ws://other.example:99999/", "http://other.example/x"), "bad-url")
            try:
                fac.setSessionParameters(url=bad, origin=cfg["origin"], protocols=cfg["protocols"])
                self.run.probe("retarget-accepted")
            except Exception as e:  # noqa
                self.run.probe("retarget-refused:%s" % type(e).__name__)
            self.expect_url = expect_from_url(getattr(fac, "url", None)) or self.expect_url
        cfg["decoy"] = ch.flag("decoy-connection-first", 0.3)
        if cfg["decoy"]:
            if ch.flag("decoy-is-a-pair", 0.4):
                # a whole earlier connection in this process, client and server side, with compression offered,
                # accepted (with parameters) and agreed
                from autobahn.websocket.compress import (PerMessageDeflateOffer, PerMessageDeflateOfferAccept,
                                                         PerMessageDeflateResponseAccept)
                kw2 = self.fw.factory_kw(self.reactor)
                dsf = aw.WebSocketServerFactory("ws://localhost:9000", protocols=["zzz", "b"], **kw2)
                dsf.setProtocolOptions(openHandshakeTimeout=0, perMessageCompressionAccept=lambda offers: PerMessageDeflateOfferAccept(
                    offers[0], request_no_context_takeover=False, request_max_window_bits=0, no_context_takeover=None, window_bits=None))
                dcf = aw.WebSocketClientFactory("ws://localhost:9000", protocols=["zzz", "b"], **kw2)
                dcf.setProtocolOptions(openHandshakeTimeout=0, perMessageCompressionOffers=[PerMessageDeflateOffer()],
                                       perMessageCompressionAccept=lambda r: PerMessageDeflateResponseAccept(r))
                _, RecServer_, RecClient_ = ws_classes()
                dsf.protocol, dcf.protocol = RecServer_, RecClient_
                self.decoy_pair(dcf, dsf, lambda dc, ds: ds.p.sendMessage(b"decoy", True))
            else:
                self.decoy_connection(aw, RecClient, url)
        e, peer = self.build_raw(fac, False)
        e.monitor = None
        self.start(e)
        self.run.log("cfg", "client", sorted((k, repr(v)) for k, v in cfg.items()))
        self.response_made = False

    def decoy_connection(self, aw, RecClient, url):
        """An earlier, unrelated client connection in the same process (other factory, other subprotocols, compression
        offered and agreed): it completes its handshake and is lost before the judged connection starts.  Nothing of
        it may influence what the judged connection accepts."""
        from autobahn.websocket.compress import PerMessageDeflateOffer, PerMessageDeflateResponseAccept
        fac2 = aw.WebSocketClientFactory(url, protocols=["zzz", "b"], **self.fw.factory_kw(self.reactor))
        fac2.setProtocolOptions(openHandshakeTimeout=0, perMessageCompressionOffers=[PerMessageDeflateOffer()],
                                perMessageCompressionAccept=lambda r: PerMessageDeflateResponseAccept(r))
        fac2.protocol = RecClient
        t, p, peer, e2p, p2e = self.fw.connect_raw(self.run, self.reactor, fac2, False, name="D")
        d = Ep(self, "D", False)
        d.t, d.p = t, p
        p.ep = d
        t.observers.append(d.on_write)
        self.start(d)
        t.flush(None)
        self.fw.loop_drain(self)
        t.flush(None)
        if b"\r\n\r\n" not in bytes(peer.received):
            raise SetupViolation("client-sent-no-request", "decoy connection")
        # (the agreed extension may carry parameters - the very values a later, malformed response repeats)
        params = self.run.ch.pick((b"", b"; client_no_context_takeover", b"; server_max_window_bits=10",
                                   b"; server_no_context_takeover; server_max_window_bits=10"), "decoy-ext-params", (2, 1, 1, 1))
        self.decoy_params = params
        peer.send(self.server_response_bytes(bytes(peer.received),
                                             extra=b"Sec-WebSocket-Protocol: zzz\r\nSec-WebSocket-Extensions: permessage-deflate" + params + b"\r\n"))
        chunk = p2e.take(len(p2e.buf))
        d.on_delivered(chunk)
        self.fw.deliver(self, t, chunk)
        self.fw.loop_drain(self)
        if not any(ev[0] == "onOpen" for ev in d.events):
            raise SetupViolation("valid-handshake-did-not-open-the-connection", "decoy: %r" % (d.events,))
        peer.fin()
        p2e.ended = True
        self.fw.peer_fin(self, t)
        self.fw.loop_drain(self)
        t.flush(None)
        self.fw.loop_drain(self)
        for where, exc in list(t.escaped):
            self.on_escape(d, where, exc)
        self.run.probe("decoy-connection-before")

    def make_response(self):
        ch = self.run.ch
        cfg = self.cfg
        req = bytes(self.peer.received)
        line, hdrs = parse_http(req)
        keys = hget(hdrs, b"sec-websocket-key")
        if len(keys) != 1:
            self.run.violate(self.P + ".client-request", "key-headers:%d" % len(keys), "")
            key = keys[0] if keys else b"x"
        else:
            key = keys[0]
        self.check_client_request(line, hdrs, key)
        acc = accept_for(key).decode()
        hdr = [("Upgrade", "websocket"), ("Connection", "Upgrade"), ("Sec-WebSocket-Accept", acc)]
        status = "HTTP/1.1 101 Switching Protocols"
        valid = True
        sp = None
        if cfg["protocols"] and ch.flag("select-proto", 0.6):
            sp = ch.pick(cfg["protocols"], "sp")
            hdr.append(("Sec-WebSocket-Protocol", sp))
        if cfg["deflate"] != "none" and ch.flag("agree-deflate", 0.6):
            hdr.append(("Sec-WebSocket-Extensions", ch.pick(("permessage-deflate", "permessage-deflate; server_no_context_takeover",
                                                               "permessage-deflate; client_max_window_bits=12"), "extok")))
            if cfg["deflate"] == "offer-deny":
                valid = False
        muts = getattr(self, "resp_mutations", MUTATIONS_RESP)
        mut = ch.pick(muts, "mutation", [6] + [1] * (len(muts) - 1))
        self.mutation = mut
        encoding = "latin1"
        tail = b""
        if mut == "none":
            pass
        elif mut == "case-variation":
            hdr = [(k.upper() if i % 2 else k.lower(), v) for i, (k, v) in enumerate(hdr)]
            hdr = [(k, "WebSocket" if k.lower() == "upgrade" else v) for k, v in hdr]
        elif mut == "connection-list":
            hdr = [(k, "keep-alive, Upgrade" if k == "Connection" else v) for k, v in hdr]
        elif mut == "extra-headers":
            hdr.insert(1, ("Server", "x" * ch.pick((1, 300, 9000), "xlen")))
            hdr.append(("Set-Cookie", "a=b"))
        elif mut == "frames-follow":
            tail = b"\x81\x02hi"
        elif mut == "status":
            status = ch.pick(("HTTP/1.1 200 OK", "HTTP/1.1 404 Not Found", "HTTP/1.1 301 Moved", "HTTP/1.1 100 Continue",
                              "HTTP/1.1 1010 x", "HTTP/1.1 abc nope", "HTTP/1.1", "", "HTTP/1.1 -101 x", "HTTP/1.1 101.0 x"), "status")
            valid = False
        elif mut == "http-version":
            status = ch.pick(("HTTP/1.0", "HTTP/2", "HTTP/1.10", "http/1.1"), "httpv") + " 101 Switching Protocols"
            valid = False
        elif mut.startswith("missing:"):
            name = mut.split(":", 1)[1]
            hdr = [(k, v) for k, v in hdr if k.lower() != name]
            valid = False
        elif mut == "dup:sec-websocket-accept":
            hdr.append(("Sec-WebSocket-Accept", acc))
            valid = False
        elif mut == "upgrade-wrong":
            hdr = [(k, ch.pick(("h2c", "websockets", ""), "upg") if k == "Upgrade" else v) for k, v in hdr]
            valid = False
        elif mut == "connection-wrong":
            hdr = [(k, ch.pick(("keep-alive", "close"), "conn") if k == "Connection" else v) for k, v in hdr]
            valid = False
        elif mut == "accept-other-key":
            other = accept_for(base64.b64encode(b"0123456789abcdef")).decode()
            bad = ch.pick((other, acc[:-1] + ("A" if acc[-1] != "A" else "B"), acc.lower(), acc + "=", "", acc[:-2]), "badacc")
            hdr = [(k, bad if k == "Sec-WebSocket-Accept" else v) for k, v in hdr]
            valid = False
        elif mut == "proto-not-requested":
            other = ch.pick([x for x in ("zzz", "b", "a") if x not in (cfg["protocols"] or [])], "other-proto")
            hdr = [(k, v) for k, v in hdr if k != "Sec-WebSocket-Protocol"] + [("Sec-WebSocket-Protocol", other)]
            valid = False
        elif mut == "proto-dup":
            if sp:
                hdr.append(("Sec-WebSocket-Protocol", sp))
                valid = False
            else:
                self.mutation = "none"
        elif mut == "ext-unknown":
            hdr = [(k, v) for k, v in hdr if k != "Sec-WebSocket-Extensions"] + [("Sec-WebSocket-Extensions", ch.pick(
                ("x-unknown", "permessage-foo; a=1", "deflate-frame"), "extunk"))]
            valid = False
        elif mut == "ext-not-offered":
            if cfg["deflate"] == "none":
                hdr.append(("Sec-WebSocket-Extensions", "permessage-deflate"))
                valid = False
            else:
                self.mutation = "none"
        elif mut == "ext-repeat":
            hdr = [(k, v) for k, v in hdr if k != "Sec-WebSocket-Extensions"]
            hdr.append(("Sec-WebSocket-Extensions", "permessage-deflate, permessage-deflate"))
            valid = False
        elif mut == "ext-dup-header":
            hdr = [(k, v) for k, v in hdr if k != "Sec-WebSocket-Extensions"]
            hdr.append(("Sec-WebSocket-Extensions", "permessage-deflate"))
            hdr.append(("Sec-WebSocket-Extensions", "permessage-deflate"))
            valid = False
        elif mut == "ext-bad-param" and getattr(self, "decoy_params", b"") and ch.flag("repeat-what-the-decoy-agreed", 0.6):
            # the malformed response repeats a parameter of a well-formed response seen earlier in this process
            twin = {b"; client_no_context_takeover": "client_no_context_takeover; client_no_context_takeover",
                    b"; server_max_window_bits=10": "server_max_window_bits=10; server_max_window_bits=9",
                    b"; server_no_context_takeover; server_max_window_bits=10":
                        "server_no_context_takeover; server_max_window_bits=10; server_no_context_takeover"}[self.decoy_params]
            hdr = [(k, v) for k, v in hdr if k != "Sec-WebSocket-Extensions"]
            hdr.append(("Sec-WebSocket-Extensions", "permessage-deflate; " + twin))
            self.run.probe("malformed-twin-of-an-earlier-response")
            valid = False
        elif mut == "ext-bad-param":
            hdr = [(k, v) for k, v in hdr if k != "Sec-WebSocket-Extensions"]
            hdr.append(("Sec-WebSocket-Extensions", "permessage-deflate; " + ch.pick(
                ("server_max_window_bits=7", "server_max_window_bits=16", "server_max_window_bits=0", "client_max_window_bits=0",
                 "client_max_window_bits=abc", "bogus_param",
                 "server_no_context_takeover=1", "client_no_context_takeover; client_no_context_takeover",
                 "server_max_window_bits=10; server_max_window_bits=10", "server_max_window_bits=10; server_max_window_bits=9",
                 "server_no_context_takeover; server_max_window_bits=10; server_no_context_takeover"), "badparam")))
            valid = False
        elif mut == "non-utf8":
            hdr.insert(1, ("X-Bin", "caf\xe9 \xff\xfe"))
        elif mut == "truncated":
            valid = False
        elif mut == "garbage":
            valid = False
        lines = [status] + ["%s: %s" % kv for kv in hdr]
        resp = ("\r\n".join(lines) + "\r\n\r\n").encode(encoding)
        if mut == "truncated":
            resp = resp[:ch.choose(len(resp) - 3, "cut")]
        elif mut == "garbage":
            import random as _r
            resp = _r.Random(ch.choose(1 << 16, "gseed")).randbytes(ch.pick((1, 10, 300, 5000), "glen"))
            if ch.flag("garbage-with-terminator"):
                resp += b"\r\n\r\n"
        self.verdict = "valid" if valid else "invalid"
        self.resp_proto = sp
        self.run.log("mutation", "client", self.mutation, self.verdict)
        self.run.abstract("mut", self.mutation, self.verdict)
        return resp + tail

    def check_client_request(self, line, hdrs, key):
        run = self.run
        host, port, resource = self.expect_url
        parts = line.split(b" ")
        if len(parts) != 3 or parts[0] != b"GET" or parts[2] != b"HTTP/1.1":
            run.violate(self.P + ".client-request", "request-line", repr(line))
        elif parts[1].decode("latin1") != resource:
            run.violate(self.P + ".client-request", "resource", "%r != %r" % (parts[1], resource))
        hosts = hget(hdrs, b"host")
        want = ("%s:%d" % (host, port)).encode()
        if hosts != [want] and not (port == 80 and hosts == [host.encode()]):
            run.violate(self.P + ".client-request", "host-header", "%r, wanted %r" % (hosts, want))
        try:
            raw = base64.b64decode(key, validate=True)
        except Exception:
            raw = b""
        if len(raw) != 16:
            run.violate(self.P + ".client-request", "key-not-16-octets", repr(key))
        if not any(b"websocket" == v.lower() for v in hget(hdrs, b"upgrade")):
            run.violate(self.P + ".client-request", "upgrade-header", "")
        if not any(b"upgrade" in [x.strip().lower() for x in v.split(b",")] for v in hget(hdrs, b"connection")):
            run.violate(self.P + ".client-request", "connection-header", "")
        want_v = {10: b"8", 13: b"13", 18: b"13"}[self.cfg["spec"]]
        if hget(hdrs, b"sec-websocket-version") != [want_v]:
            run.violate(self.P + ".client-request", "version-header", repr(hget(hdrs, b"sec-websocket-version")))
        self.client_key = key

    # --- actions -----------------------------------------------------------------------------------------------------
    def extra_actions(self):
        acts = []
        if self.mode == "limit":
            return self.limit_actions()
        if self.mode == "server":
            if self.to_send and not self.peer.closed:
                acts.append((4.0, "peer-send", self.peer_send_part))
        elif self.mode == "client":
            if not self.response_made and b"\r\n\r\n" in bytes(self.peer.received):
                acts.append((5.0, "peer-respond", self.peer_respond))
            elif self.to_send and not self.peer.closed:
                acts.append((4.0, "peer-send", self.peer_send_part))
        return acts

    def peer_respond(self):
        self.response_made = True
        self.to_send = self.make_response()
        self.peer_send_part()

    def peer_send_part(self):
        ch = self.run.ch
        n = len(self.to_send)
        k = n if ch.flag("send-all", 0.6) else 1 + ch.choose(n, "send-k")
        data, self.to_send = self.to_send[:k], self.to_send[k:]
        self.peer.send(data)

    def drain(self):
        if self.mode == "limit":
            guard = 0
            while guard < 50:
                guard += 1
                todo = [c for c in self.conns if not c.started or (not c.dropped and (c.to_send or c.pending is not None))]
                if not todo:
                    break
                conn = todo[0]
                if not conn.started:
                    self.limit_accept(conn)
                elif conn.to_send:
                    conn.peer.send(conn.to_send)
                    conn.to_send = b""
                else:
                    self.limit_resolve(conn)
                WsWorld.drain(self)
            return WsWorld.drain(self)
        if self.mode == "client" and not self.response_made:
            WsWorld.drain(self)
            if b"\r\n\r\n" in bytes(self.peer.received):
                self.response_made = True
                self.to_send = self.make_response()
        if self.to_send and self.peer is not None and not self.peer.closed:
            self.peer.send(self.to_send)
            self.to_send = b""
        WsWorld.drain(self)

    # --- oracles -------------------------------------------------------------------------------------------------------
    def on_escape(self, ep, where, exc):
        self.run.violate(self.P + ".no-escape", "%s:%s:%s" % (where, type(exc).__name__, exc_site(exc)),
                         "%s mutation=%s: %r" % (self.mode, self.mutation, exc))

    def check_step(self):
        self.check_escapes()
        if self.mode == "limit":
            self.limit_invariant()

    def final(self):
        run = self.run
        self.check_escapes()
        if self.mode == "pair":
            return self.final_pair()
        if self.mode == "limit":
            return self.final_limit()
        e = self.e
        opened = any(ev[0] == "onOpen" for ev in e.events)
        state_open = e.p._st == 3 or 3 in e.states
        out = bytes(e.http_out)
        if self.mode == "server" and e.closed_cb is not None and "opening handshake timeout" in (e.closed_cb[2] or ""):
            # the peer was slower than the configured opening-handshake timeout: dropping it is what the timer is for
            run.probe("open-timeout-fired")
            return
        if self.mode == "server":
            if self.verdict == "valid":
                if not opened:
                    run.violate(self.P + ".accept-iff-valid", "valid-request-rejected:" + self.mutation, out[:120].decode("latin1"))
                else:
                    self.check_101(out)
            else:
                if opened or state_open:
                    run.violate(self.P + ".accept-iff-valid", "invalid-request-accepted:" + self.mutation, self.request[:200].decode("latin1"))
                else:
                    self.check_reject_clean(out)
        else:
            if not self.response_made:
                return
            if self.verdict == "valid":
                if not opened:
                    run.violate(self.P + ".accept-iff-valid", "valid-response-rejected:" + self.mutation, repr(e.closed_cb))
                else:
                    sp = getattr(e.response, "protocol", None)
                    if sp != self.resp_proto:
                        run.violate(self.P + ".accept-digest", "client-subprotocol-mismatch", "%r != %r" % (sp, self.resp_proto))
            else:
                if opened or state_open:
                    run.violate(self.P + ".accept-iff-valid", "invalid-response-accepted:" + self.mutation, "")
                elif e.closed_cb is None and self.mutation not in ("truncated", "garbage"):
                    run.violate(self.P + ".reject-is-clean", "client-not-dropped:" + self.mutation, "")

    def check_101(self, out):
        run = self.run
        line, hdrs = parse_http(out)
        if not line.startswith(b"HTTP/1.1 101"):
            run.violate(self.P + ".accept-digest", "open-without-101", repr(line))
            return
        acc = hget(hdrs, b"sec-websocket-accept")
        if acc != [accept_for(self.key)]:
            run.violate(self.P + ".accept-digest", "wrong-accept-digest", "%r" % acc)
        sp = hget(hdrs, b"sec-websocket-protocol")
        if sp and (len(sp) != 1 or sp[0].decode() not in self.req_protocols):
            run.violate(self.P + ".accept-digest", "subprotocol-not-offered", repr(sp))
        ext = hget(hdrs, b"sec-websocket-extensions")
        if ext and not self.req_ext_offered:
            run.violate(self.P + ".accept-digest", "extension-not-offered", repr(ext))
        for x in ext:
            for item in x.split(b","):
                name = item.split(b";")[0].strip()
                if name != b"permessage-deflate":
                    run.violate(self.P + ".accept-digest", "extension-not-offered", repr(x))
        run.probe("server-accepted")

    def check_reject_clean(self, out):
        run = self.run
        e = self.e
        mut = self.mutation
        if mut in ("truncated", "bare-lf") or (mut == "garbage" and b"\r\n\r\n" not in self.request):
            return  # request never completes: the server legitimately keeps waiting
        if out:
            line = out.split(b"\r\n", 1)[0]
            parts = line.split(b" ")
            ok = len(parts) >= 2 and parts[0] == b"HTTP/1.1" and parts[1].isdigit() and (
                400 <= int(parts[1]) < 600 or (mut in ("no-upgrade-status-page", "missing:upgrade") and int(parts[1]) in (200, 303)))
            if not ok:
                run.violate(self.P + ".reject-is-clean", "bad-error-response:" + mut, repr(line))
        if e.p._st != 0 and not e.t.is_gone():
            run.violate(self.P + ".reject-is-clean", "not-dropped:" + mut, "")
        run.probe("server-rejected")

    def final_pair(self):
        run = self.run
        c, s = self.client, self.server
        c_open = any(ev[0] == "onOpen" for ev in c.events)
        s_open = any(ev[0] == "onOpen" for ev in s.events)
        cfg = self.cfg
        origin_ok = True
        if cfg["origin"] is not None and cfg["allowed"] is not None and cfg["origin"] != "null":
            import fnmatch
            from urllib.parse import urlsplit
            u = urlsplit(cfg["origin"])
            port = u.port or {"http": 80, "https": 443}.get(u.scheme)
            full = "%s://%s:%s" % (u.scheme, u.hostname, port)
            origin_ok = any(fnmatch.fnmatchcase(full, p) for p in cfg["allowed"])
        if cfg["sprotos"] == "foreign" and self.compatible and origin_ok:
            # the server's own application made the handshake impossible to complete: no 101 naming that subprotocol,
            # no open connection on either side
            rline, rhdrs = parse_http(bytes(s.http_out)) if s.http_out else (b"", [])
            sp_w = hget(rhdrs, b"sec-websocket-protocol") if s.http_out else None
            if rline.startswith(b"HTTP/1.1 101") and sp_w:
                run.violate(self.P + ".accept-digest", "subprotocol-not-offered", repr(sp_w))
            if s_open or c_open:
                run.violate(self.P + ".accept-iff-valid", "opened-with-a-subprotocol-the-client-never-offered", "c=%s s=%s" % (c_open, s_open))
            run.probe("pair-refused:foreign-subprotocol")
            return
        if self.compatible and origin_ok:
            if not (c_open and s_open):
                run.violate(self.P + ".own-peers-interoperate", "handshake-failed:c=%s,s=%s" % (c_open, s_open),
                            "client closed %r server closed %r" % (c.closed_cb, s.closed_cb))
                return
            for ep in (c, s):
                kinds = [ev[0] for ev in ep.events]
                if kinds.count("onConnect") != 1 or kinds.count("onOpen") != 1 or kinds.index("onConnect") > kinds.index("onOpen"):
                    run.violate(self.P + ".own-peers-interoperate", "callbacks:" + ",".join(kinds[:4]), ep.name)
            # what the client asked for on the wire
            line, hdrs = parse_http(bytes(c.http_out))
            self.check_client_request_pair(line, hdrs)
            # agreement on subprotocol / extension
            sp_c = getattr(c.response, "protocol", None)
            rline, rhdrs = parse_http(bytes(s.http_out))
            sp_w = hget(rhdrs, b"sec-websocket-protocol")
            sp_w = sp_w[0].decode() if sp_w else None
            if sp_c != sp_w:
                run.violate(self.P + ".accept-digest", "client-subprotocol-mismatch", "%r != %r" % (sp_c, sp_w))
            if sp_w is not None and sp_w not in (cfg["cprotos"] or []):
                run.violate(self.P + ".accept-digest", "subprotocol-not-offered", repr(sp_w))
            keys = hget(hdrs, b"sec-websocket-key")
            if keys and hget(rhdrs, b"sec-websocket-accept") != [accept_for(keys[0])]:
                run.violate(self.P + ".accept-digest", "wrong-accept-digest", "")
            comp_c = c.p._perMessageCompress is not None
            comp_s = s.p._perMessageCompress is not None
            if comp_c != comp_s:
                run.violate(self.P + ".own-peers-interoperate", "compression-disagreement", "c=%s s=%s" % (comp_c, comp_s))
            if cfg["deflate"] in ("none", "offer-only") and (comp_c or comp_s):
                run.violate(self.P + ".accept-digest", "extension-not-offered-or-not-accepted", cfg["deflate"])
            run.probe("pair-open")
        else:
            if c_open or s_open:
                run.violate(self.P + ".accept-iff-valid", "incompatible-peers-opened", "compatible=%s origin_ok=%s" % (self.compatible, origin_ok))
            run.probe("pair-refused")

    def check_client_request_pair(self, line, hdrs):
        host, port, resource = self.expect_url
        parts = line.split(b" ")
        if len(parts) != 3 or parts[1].decode("latin1") != resource:
            self.run.violate(self.P + ".client-request", "resource", repr(line))
        want = ("%s:%d" % (host, port)).encode()
        if hget(hdrs, b"host") != [want]:
            self.run.violate(self.P + ".client-request", "host-header", repr(hget(hdrs, b"host")))

    def nontrivial(self):
        return self.run.probes.get("split-delivery", 0) >= 1

    def sample(self):
        s = WsWorld.sample(self)
        s["mode"] = self.mode
        s["mutation"] = self.mutation
        s["verdict"] = self.verdict
        return s


class LimitConn:
    pass


def expect_from_url(url):
    """(host, port, resource) a client request for this ws:// URL must carry (own parser, not the library's)."""
    from urllib.parse import urlsplit
    try:
        u = urlsplit(url)
        host = u.hostname if ":" not in (u.hostname or "") else "[%s]" % u.hostname
        port = u.port or (443 if u.scheme == "wss" else 80)
        resource = (u.path or "/") + ("?" + u.query if u.query else "")
        return (host, port, resource)
    except Exception:  # noqa
        return ("<unparseable url %r>" % (url,), 0, "/")


def valid_base(world, limit_hit):
    cfg = world.cfg
    return not limit_hit and cfg["externalPort"] in (None, 9000)


MUTATIONS_REQ = ["none", "case-variation", "connection-list", "extra-headers", "frames-follow", "method", "http-version",
                 "request-line-short", "fragment", "missing:host", "missing:upgrade", "missing:connection",
                 "missing:sec-websocket-key", "missing:sec-websocket-version", "dup:host", "dup:sec-websocket-key",
                 "dup:sec-websocket-version", "dup:origin", "dup:sec-websocket-extensions", "upgrade-wrong",
                 "connection-wrong", "key-bad", "version-bad", "origin-bad", "origin-nohost", "dup-protocol", "host-bad-port",
                 "no-upgrade-status-page", "non-ascii", "bare-lf", "truncated", "garbage", "oversized"]

MUTATIONS_RESP = ["none", "case-variation", "connection-list", "extra-headers", "frames-follow", "status", "http-version",
                  "missing:upgrade", "missing:connection", "missing:sec-websocket-accept", "dup:sec-websocket-accept",
                  "upgrade-wrong", "connection-wrong", "accept-other-key", "proto-not-requested", "proto-dup", "ext-unknown",
                  "ext-not-offered", "ext-repeat", "ext-dup-header", "ext-bad-param", "non-utf8", "truncated", "garbage"]
