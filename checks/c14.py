"""
C14 - components reconnect within their retry budget and finish exactly once.

Component world: a real Component (Twisted: IStreamClientEndpoint objects as the transports'
endpoints; asyncio: SimLoop.create_connection) with 1-3 transports of both kinds using the real
client stacks; every connection attempt is met by a refusal, a connect timeout, or the real
server stack of the same kind carrying a scripted router whose behaviour for this attempt is
drawn.  Retry jitter is seeded (component.random).
"""

from sim.core import HarnessError
from worlds.stack import End, StackWorld, StubSession, make_ser, transport_factories

PROP = "C14"
MAX_STEPS = 140

OUTCOMES = ("refuse", "timeout", "handshake-fail", "abort", "join-lost", "join-goodbye-normal", "join-goodbye-shutdown", "join-stay")
EPS = 1e-6


class Attempt:
    pass


class World(StackWorld):
    PROP = PROP

    def __init__(self, run, mode=None):
        StackWorld.__init__(self, run)
        self.attempts = []
        self.failures = []  # times at which the component reported a connect failure
        self.events = []  # component-level listener events (name, session id)
        self.sessions_seen = []
        self.stopped_at = None
        self.main_calls = []
        self.main_futs = []
        self.conns = []  # live connections: dict(c, s, router, attempt)
        self.ops_left = 0

    # --- build --------------------------------------------------------------------------------------------------
    def build(self):
        ch = self.run.ch
        self.make_reactor(ch.pick((0.0, 0.3, 5.5), "start"))
        cfg = self.cfg = {}
        n = cfg["ntransports"] = 1 + ch.choose(3, "ntransports", (3, 2, 1))
        cfg["main"] = ch.pick(("none", "returns", "raises", "pending", "returns-later"), "main", (3, 3, 1, 1, 1))
        cfg["is_fatal"] = ch.pick(("none", "refused-is-fatal", "abort-is-fatal", "all-fatal"), "is_fatal", (5, 1, 1, 0.5))
        tcfgs = []
        self.tspec = []
        for i in range(n):
            kind = ch.pick(("websocket", "rawsocket"), "kind%d" % i)
            spec = {
                "kind": kind,
                "max_retries": ch.pick((0, 1, 2, 3, -1), "max_retries%d" % i, (2, 3, 3, 2, 1)),
                "initial_retry_delay": ch.pick((1.5, 0.5, 0.01), "ird%d" % i),
                "retry_delay_growth": ch.pick((1.5, 1.0, 3.0), "growth%d" % i),
                "retry_delay_jitter": ch.pick((0.1, 0.0, 0.5), "jitter%d" % i, (3, 2, 1)),
                "max_retry_delay": ch.pick((300, 1.0, 2.0, 0.2, 0.875, 2.718, 0.375), "max_delay%d" % i, (2, 2, 2, 1, 1, 1, 1)),
            }
            self.tspec.append(spec)
            t = {"type": kind, "max_retries": spec["max_retries"], "initial_retry_delay": spec["initial_retry_delay"],
                 "retry_delay_growth": spec["retry_delay_growth"], "retry_delay_jitter": spec["retry_delay_jitter"],
                 "max_retry_delay": spec["max_retry_delay"]}
            if kind == "websocket":
                t["url"] = "ws://host%d:%d/ws" % (i, 9000 + i)
                t["serializers"] = ["json"]
            else:
                t["url"] = "rs://host%d:%d" % (i, 9000 + i)
                t["serializer"] = "json"
            if self.fwname == "tx":
                t["endpoint"] = self.fw.SimEndpoint(lambda factory, i=i: self.tx_connect(i, factory))
            else:
                t["endpoint"] = {"type": "tcp", "host": "host%d" % i, "port": 9000 + i, "timeout": 10}
            tcfgs.append(t)
        if self.fwname == "tx":
            from autobahn.twisted.component import Component
        else:
            from autobahn.asyncio.component import Component
            self.reactor.connect_hook = self.aio_connect
        main = None
        if cfg["main"] != "none":
            main = self.main
        is_fatal = None
        if cfg["is_fatal"] != "none":
            is_fatal = self.is_fatal
        from worlds.wamp import session_classes
        fwamp = session_classes()
        self.session_events = []  # what each session fired itself (session-level listeners)

        def session_factory(config):
            sess = fwamp.Session(config)
            sess._vid = len(self.created_sessions)
            self.created_sessions.append(sess)
            for name in ("connect", "join", "ready", "leave", "disconnect"):
                sess.on(name, lambda *a, name=name, sess=sess, **k: self.on_session_event(name, sess))
            return sess
        self.created_sessions = []
        self.component = Component(main=main, transports=tcfgs, realm="realm1", is_fatal=is_fatal, session_factory=session_factory)
        # observation only: count the attempts the component *initiates* (on asyncio the connection
        # attempt itself starts one loop iteration later, inside the create_connection() task)
        self.initiated = 0
        orig_connect_once = self.component._connect_once

        def counting_connect_once(reactor, transport):
            self.initiated += 1
            return orig_connect_once(reactor, transport)
        self.component._connect_once = counting_connect_once
        for name in ("connect", "join", "ready", "leave", "disconnect"):
            self.component.on(name, self.make_listener(name))
        if ch.flag("an-extra-listener-removed-twice", 0.12):
            # a listener of its own that the application removes again - and once more for good measure (a tidy-up that runs
            # twice): the other listeners of the event are none of its business
            ev_name = ch.pick(("join", "leave", "connect", "disconnect", "ready"), "extra-listener-event")
            extra = lambda *a, **k: None  # noqa
            self.component.on(ev_name, extra)
            for _ in range(2):
                try:
                    self.component.off(ev_name, extra)
                except Exception as e:  # noqa
                    self.run.probe("second-off-raised:%s" % type(e).__name__)
            self.run.probe("extra-listener-removed-twice")
        self.component.on("connectfailure", self.on_connectfailure)
        self.component.on("start", lambda *a: self.events.append(("start", None)))
        self.run.log("cfg", sorted((k, repr(v)) for k, v in cfg.items()), [sorted(s.items()) for s in self.tspec])
        self.ops_left = 3 + ch.choose(10, "nops")
        self.may_stop = ch.flag("app-calls-stop", 0.3)
        self.t_start = self.now()
        self.last_end = self.now()
        # a stop() on the idle component (a tidy-up in a `finally:`, a signal handler that fired early) is spent: the
        # start() that follows is a run of its own
        cfg["stop_while_idle"] = ch.flag("stop-called-on-the-idle-component-before-start", 0.12)
        if cfg["stop_while_idle"]:
            try:
                self.fw.call(self, self.component.stop)
                self.run.probe("stop-on-idle-component")
            except Exception as e:  # noqa
                self.run.probe("stop-on-idle-component-raised:%s" % type(e).__name__)
            self.settle_idle()
        f = self.fw.call(self, self.component.start, self.reactor)
        self.done = self.fw.watch(f)
        self.pump_component()

    def settle_idle(self):
        self.fw.loop_drain(self)

    def on_session_event(self, name, sess):
        self.session_events.append((name, sess._vid))
        if name == "join" and self.attempts:
            # the client's view decides whether an attempt led to a successful join
            self.attempts[-1].joined = True

    def is_fatal(self, exc):
        mode = self.cfg["is_fatal"]
        if mode == "all-fatal":
            return True
        if mode == "refused-is-fatal":
            return isinstance(exc, ConnectionRefusedError)
        from autobahn.wamp.exception import ApplicationError
        return isinstance(exc, ApplicationError) and exc.error == "wamp.error.no_such_realm"

    def main(self, reactor, session):
        self.main_calls.append(session)
        self.run.log("main", len(self.main_calls))
        m = self.cfg["main"]
        if m == "returns":
            return None
        if m == "raises":
            self.main_failed_vids = tuple(self.main_failed_vids) + (getattr(session, "_vid", None),)
            raise RuntimeError("main fails")
        f = self.fw.new_future(self)
        self.main_futs.append((f, m, len(self.main_calls)))
        return f

    normal_leave_seen = None
    main_failed_vids = ()

    def make_listener(self, name):
        def listener(session, *a, **k):
            self.events.append((name, getattr(session, "_vid", None)))
            self.run.log("component-event", name, getattr(session, "_vid", None))
            if name == "leave" and a and getattr(a[0], "reason", None) in ("wamp.close.normal", "wamp.close.goodbye_and_out"):
                vid = getattr(session, "_vid", None)
                # a session that leaves the realm normally ends the component successfully - unless its connection
                # had been given up before (main failed) or start()'s result was decided already
                if self.normal_leave_seen is None and vid not in self.main_failed_vids and self.done.state()[0] == "pending" \
                        and self.created_sessions and vid == self.created_sessions[-1]._vid:
                    self.normal_leave_seen = (vid, self.initiated, self.now())
                    self.run.probe("normal-leave-seen")
        return listener

    def on_connectfailure(self, comp, exc):
        self.failures.append((self.now(), type(exc).__name__))
        self.last_end = self.now()
        self.run.log("connectfailure", type(exc).__name__)
        if self.attempts:
            a = self.attempts[-1]
            a.ended = self.now()
            a.error = exc
            a.fatal = bool(self.cfg["is_fatal"] != "none" and self.is_fatal(exc))

    # --- connection attempts ------------------------------------------------------------------------------------------
    def new_attempt(self, idx):
        ch = self.run.ch
        a = Attempt()
        a.idx = idx
        a.time = self.now()
        a.n = len(self.attempts)
        a.outcome = ch.pick(OUTCOMES, "outcome", (3, 1, 1.5, 2, 3, 2, 1.5, 2))
        a.ended = None
        a.joined = False
        a.fatal = False
        a.error = None
        a.stopped_before = self.stopped_at is not None
        self.attempts.append(a)
        self.run.log("attempt", a.n, idx, round(a.time, 6), a.outcome)
        self.run.abstract("attempt", idx, a.outcome)
        self.check_attempt(a)
        return a

    def server_stack(self, a, kind):
        """Real server factory of the same kind with a scripted router session."""
        m, CF, SF = transport_factories("ws" if kind == "websocket" else "rs")
        router = StubSession(self, "R%d" % a.n)
        router.attempt = a
        router.hooks["onMessage"] = lambda msg, router=router: self.router_on_message(router, msg)
        sers = [make_ser("msgpack" if a.outcome == "handshake-fail" else "json")]
        kw = self.fw.factory_kw(self.reactor)
        if kind == "websocket":
            sfac = SF(lambda: router, "ws://localhost:9000/ws", serializers=sers, **kw)
            sfac.setProtocolOptions(openHandshakeTimeout=0)
        else:
            sfac = SF(lambda: router, serializers=sers)
        return sfac, router

    def wire(self, a, tc, ts, pc, ps, router):
        c = End(self, "C%d" % a.n, False)
        s = End(self, "S%d" % a.n, True)
        from sim.net import Pipe
        c2s = Pipe(self.run, "C%d>S%d" % (a.n, a.n))
        s2c = Pipe(self.run, "S%d>C%d" % (a.n, a.n))
        tc.link_out, tc.link_in = c2s, s2c
        ts.link_out, ts.link_in = s2c, c2s
        tc.protocol, ts.protocol = pc, ps
        c.t, c.p, s.t, s.p = tc, pc, ts, ps
        self.eps += [c, s]
        self.pipes += [(c2s, s), (s2c, c)]
        conn = {"c": c, "s": s, "router": router, "attempt": a, "c2s": c2s, "s2c": s2c}
        self.conns.append(conn)
        a.conn = conn
        return conn

    def tx_connect(self, idx, factory):
        from twisted.internet import defer, error
        a = self.new_attempt(idx)
        d = defer.Deferred()
        if a.outcome == "refuse":
            self.reactor.callLater(0, d.errback, ConnectionRefusedError(111, "Connection refused"))
            return d
        if a.outcome == "timeout":
            self.reactor.callLater(10, d.errback, error.TimeoutError("User timeout caused connection failure."))
            self.run.fault("connect-timeout")
            return d
        sfac, router = self.server_stack(a, self.tspec[idx]["kind"])
        tc = self.fw.SimTxTransport(self.run, self.reactor, "C%d" % a.n, False)
        ts = self.fw.SimTxTransport(self.run, self.reactor, "S%d" % a.n, True)
        pc = factory.buildProtocol(tc.getPeer())
        ps = sfac.buildProtocol(ts.getPeer())
        self.wire(a, tc, ts, pc, ps, router)

        def established():
            ps.makeConnection(ts)
            pc.makeConnection(tc)
            d.callback(pc)
        self.reactor.callLater(0, established)
        return d

    def aio_connect(self, loop, protocol_factory, host, port):
        idx = port - 9000
        a = self.new_attempt(idx)
        if a.outcome == "refuse":
            return "refuse"
        if a.outcome == "timeout":
            self.run.fault("connect-timeout")
            return "hang"
        sfac, router = self.server_stack(a, self.tspec[idx]["kind"])

        def make_transport(pc):
            tc = self.fw.SimAioTransport(self.run, loop, "C%d" % a.n, False)
            ts = self.fw.SimAioTransport(self.run, loop, "S%d" % a.n, True)
            ps = sfac()
            self.wire(a, tc, ts, pc, ps, router)
            loop.call_soon(ps.connection_made, ts)
            return tc
        return make_transport

    # --- scripted router ------------------------------------------------------------------------------------------------------
    def router_on_message(self, router, msg):
        from autobahn.wamp import message as M
        from autobahn.wamp import role
        a = router.attempt
        t = router._transport
        if isinstance(msg, M.Hello):
            if a.outcome == "abort":
                t.send(M.Abort("wamp.error.no_such_realm", "no realm"))
                self.run.fault("router-abort")
                return
            roles = {"broker": role.RoleBrokerFeatures(), "dealer": role.RoleDealerFeatures()}
            t.send(M.Welcome(7000 + a.n, roles, realm="realm1", authid="x", authrole="y", authmethod="anonymous"))
            a.welcomed = True
        elif isinstance(msg, M.Goodbye):
            if not getattr(router, "goodbye_sent", False):
                router.goodbye_sent = True
                t.send(M.Goodbye("wamp.close.goodbye_and_out"))

    # --- reference model of the retry budget ---------------------------------------------------------------------------------
    def model(self):
        """per transport: attempts since the last join (statement's accounting) and in total
        (the accounting without main), fatal flag."""
        since = [0] * len(self.tspec)
        total = [0] * len(self.tspec)
        fatal = [False] * len(self.tspec)
        for a in self.attempts:
            total[a.idx] += 1
            since[a.idx] += 1
            if a.joined:
                since[a.idx] = 0
            if a.fatal:
                fatal[a.idx] = True
        return since, total, fatal

    def on_join_model(self, a):
        pass

    def eligible(self, idx, both):
        since, total, fatal = self.model()
        mr = self.tspec[idx]["max_retries"]
        if fatal[idx]:
            return False
        if mr == -1:
            return True
        return since[idx] < mr + 1

    def check_attempt(self, a):
        run = self.run
        prev = self.attempts[:-1]
        spec = self.tspec[a.idx]
        # budget (statement's accounting: attempts since the transport's last successful join)
        since = 0
        was_fatal = False
        first = True
        for p in prev:
            if p.idx == a.idx:
                first = False
                since += 1
                if p.joined:
                    since = 0
                if p.fatal:
                    was_fatal = True
        if spec["max_retries"] != -1 and since + 1 > spec["max_retries"] + 1:
            run.violate("C14.budget", "attempts-over-budget", "transport %d: attempt %d since last join, max_retries %d" % (a.idx, since + 1, spec["max_retries"]))
        if was_fatal:
            run.violate("C14.budget", "attempt-after-fatal-error", "transport %d" % a.idx)
        if self.stopped_at is not None and a.n >= self.initiated_at_stop:
            run.violate("C14.done-once", "attempt-initiated-after-stop", "attempt %d" % a.n)
        # round robin: every transport skipped on the way must be ineligible under at least one accounting
        n = len(self.tspec)
        last = prev[-1].idx if prev else -1
        j = (last + 1) % n
        skipped = []
        while j != a.idx:
            skipped.append(j)
            j = (j + 1) % n
            if len(skipped) > n:
                break
        self.attempts.pop()
        try:
            for k in skipped:
                if self.eligible(k, both=True):
                    run.violate("C14.round-robin", "eligible-transport-skipped", "attempted %d after %d, skipped %r" % (a.idx, last, skipped))
                    break
        finally:
            self.attempts.append(a)
        # delays
        sleep = a.time - self.last_end
        if first:
            if sleep > EPS:
                run.violate("C14.first-immediate", "first-attempt-delayed", "transport %d waited %.6f s" % (a.idx, sleep))
        if sleep > spec["max_retry_delay"] + EPS:
            run.violate("C14.delay-cap", "slept-longer-than-max_retry_delay", "transport %d waited %.6f > %s" % (a.idx, sleep, spec["max_retry_delay"]))
        a.sleep = sleep

    # --- actions -------------------------------------------------------------------------------------------------------------------
    def pump_component(self):
        self.fw.loop_drain(self)
        nt = self.fw.next_timer(self.reactor)
        n = 0
        while nt is not None and nt - self.now() <= 1e-9 and n < 50:
            self.fw.fire_next(self)
            self.fw.loop_drain(self)
            nt = self.fw.next_timer(self.reactor)
            n += 1
        self.check_escapes()

    def live_conns(self):
        return [c for c in self.conns if not c["c"].t.is_gone()]

    def extra_actions(self):
        acts = []
        if self.ops_left <= 0:
            return acts
        for conn in self.live_conns():
            a = conn["attempt"]
            r = conn["router"]
            if getattr(a, "welcomed", False) and r._transport is not None:
                if a.outcome == "join-lost" and not getattr(a, "killed", False):
                    acts.append((2.5, "kill-connection", lambda conn=conn: self.kill(conn)))
                if a.outcome in ("join-goodbye-normal", "join-goodbye-shutdown") and not getattr(r, "goodbye_sent", False):
                    acts.append((2.5, "router-goodbye", lambda conn=conn: self.router_goodbye(conn)))
        if self.main_futs:
            acts.append((2.0, "main-completes", self.complete_main))
        if self.may_stop and self.stopped_at is None and self.attempts:
            acts.append((0.5, "stop", self.do_stop))
        return acts

    def kill(self, conn):
        self.ops_left -= 1
        conn["attempt"].killed = True
        if self.run.ch.flag("orderly-fin", 0.4):
            # the router side closes TCP in an orderly way (FIN, no GOODBYE, no WebSocket close frame): for the client
            # a clean transport-level end (Twisted: ConnectionDone) of a session that never said goodbye
            conn["s2c"].close_write()
            self.run.fault("connection-fin")
            return
        conn["c2s"].reset()
        conn["s2c"].reset()
        self.run.fault("connection-cut")

    def router_goodbye(self, conn):
        from autobahn.wamp import message as M
        self.ops_left -= 1
        r = conn["router"]
        a = conn["attempt"]
        r.goodbye_sent = True
        reason = "wamp.close.normal" if a.outcome == "join-goodbye-normal" else "wamp.close.system_shutdown"
        a.goodbye_reason = reason
        try:
            self.fw.call(self, r._transport.send, M.Goodbye(reason, "bye"))
        except Exception:
            pass

    def complete_main(self):
        self.ops_left -= 1
        f, mode, ncall = self.main_futs.pop(0)
        if mode == "pending" and self.run.ch.flag("main-fails-late", 0.4):
            current = ncall == len(self.main_calls) and self.session_alive(self.main_calls[-1])
            if self.done.state()[0] == "pending" and current:
                # (the main of a session that is already gone, or a failure after start()'s result is
                # complete, cannot change the outcome any more)
                self.main_failed = True
                self.main_failed_at_call = ncall
            self.main_failed_vids = tuple(self.main_failed_vids) + (getattr(self.main_calls[ncall - 1], "_vid", None),)
            self.fw.call(self, self.fw.reject_future, f, RuntimeError("main fails late"))
        else:
            self.fw.call(self, self.fw.resolve_future, f, None)
        self.pump_component()

    def session_alive(self, session):
        return session._transport is not None

    def do_stop(self):
        self.ops_left -= 1
        self.stopped_at = self.now()
        self.initiated_at_stop = self.initiated
        self.run.fault("stop()")
        self.run.log("app", "stop")
        try:
            self.fw.call(self, self.component.stop)
        except Exception as e:  # noqa
            if type(e).__name__ in ("Disconnected", "TransportLost"):
                # leave() on a session whose transport is already closing: outside the statement
                self.run.probe("stop-raised:%s" % type(e).__name__)
            else:
                self.run.violate("C14.done-once", "stop-raised:%s" % type(e).__name__, repr(e))
        self.pump_component()

    # --- oracles ---------------------------------------------------------------------------------------------------------------------
    def on_escape(self, ep, where, exc):
        from worlds.ws import exc_site
        self.run.probe("escaped:%s:%s" % (type(exc).__name__, exc_site(exc)))
        self.last_escape = "%s:%s:%s" % (where, type(exc).__name__, exc_site(exc))

    def check_step(self):
        self.check_escapes()
        w = self.done
        if getattr(w, "fired", 0) > 1 and not getattr(self, "_d2", False):
            self._d2 = True
            self.run.violate("C14.done-once", "start-result-fired-x%d" % w.fired, "")

    def abstract_state(self):
        return (len(self.attempts), self.done.state()[0], len(self.live_conns()), self.stopped_at is not None)

    def drain(self):
        # let everything play out: deliver, fire timers (retry sleeps may be long), complete mains
        guard = 0
        horizon = self.now() + 4000.0
        while guard < 400 and not self.run.fatal:
            guard += 1
            StackWorld.drain(self)
            if self.main_futs:
                f, mode, ncall = self.main_futs.pop(0)
                self.fw.call(self, self.fw.resolve_future, f, None)
                self.pump_component()
                continue
            # router-side follow-ups that are still owed
            progressed = False
            for conn in self.live_conns():
                a = conn["attempt"]
                r = conn["router"]
                if getattr(a, "welcomed", False) and r._transport is not None:
                    if a.outcome == "join-lost" and not getattr(a, "killed", False):
                        self.kill(conn)
                        progressed = True
                    elif a.outcome in ("join-goodbye-normal", "join-goodbye-shutdown") and not getattr(r, "goodbye_sent", False):
                        self.router_goodbye(conn)
                        progressed = True
            if progressed:
                continue
            nt = self.fw.next_timer(self.reactor)
            if nt is None or nt > horizon or self.done.state()[0] != "pending":
                break
            if len(self.attempts) > 60:
                break
            self.fw.fire_next(self)
            self.pump_component()
            self.check_step()

    DRAIN_HORIZON = 0.0  # the generic drain must not run the retry timers itself

    def final(self):
        run = self.run
        self.check_step()
        st = self.done.state()
        cfg = self.cfg
        # --- done-once / outcome
        normal_leave = any(getattr(a, "goodbye_reason", None) == "wamp.close.normal" and a.joined for a in self.attempts)
        main_done = cfg["main"] in ("returns", "returns-later", "pending") and self.main_calls and not getattr(self, "main_failed", False) \
            and not self.main_futs
        # a failing main is handled like a failed connection (retried within the budget); what decides is
        # the *last* run of main: a later successful run legitimately completes the component
        main_failed = (cfg["main"] == "raises" and self.main_calls) or (
            getattr(self, "main_failed", False) and getattr(self, "main_failed_at_call", 0) == len(self.main_calls))
        exhausted = not any(self.eligible(i, both=False) for i in range(len(self.tspec)))
        if st[0] == "pending":
            # legitimately pending: a session is up with nothing to end it (join-stay, no main), or unlimited retries
            live = [c for c in self.live_conns() if c["attempt"].joined]
            unlimited = any(s["max_retries"] == -1 for s in self.tspec)
            if not live and not unlimited and len(self.attempts) <= 60:
                if any(self.eligible(i, both=True) for i in range(len(self.tspec))):
                    run.violate("C14.progress", "no-new-attempt-although-attempts-left", "attempts %d, last escape %s" % (
                        len(self.attempts), getattr(self, "last_escape", None)))
                elif exhausted:
                    run.violate("C14.done-once", "exhausted-but-start-result-pending", "")
            run.probe("done:pending")
        elif st[0] == "ok":
            run.probe("done:ok")
            if not (normal_leave or main_done or self.stopped_at is not None or self.clean_disconnect()):
                run.violate("C14.done-once", "succeeded-without-cause", "main=%s attempts=%r" % (cfg["main"], [(a.idx, a.outcome) for a in self.attempts]))
            if main_failed and self.stopped_at is None and not normal_leave:
                run.violate("C14.done-once", "succeeded-although-main-failed", "")
        else:
            run.probe("done:err")
            if not (main_failed or exhausted or self.any_unlimited_exhausted()):
                run.violate("C14.done-once", "failed-without-cause:%s" % type(st[1]).__name__, "%r attempts=%r" % (
                    st[1], [(a.idx, a.outcome) for a in self.attempts]))
        # --- a normal leave finishes the component: successfully, and without a further attempt
        if self.normal_leave_seen is not None:
            vid, initiated, t_leave = self.normal_leave_seen
            if st[0] != "ok":
                run.violate("C14.done-once", "normal-leave-did-not-finish-the-component:%s" % st[0],
                            "session %s left normally at %.3f after %d attempts; start() is %s; attempts now %d" % (
                                vid, t_leave, initiated, st[0], self.initiated))
            elif self.initiated > initiated:
                run.violate("C14.done-once", "attempt-initiated-after-normal-leave", "%d -> %d" % (initiated, self.initiated))
        # --- listeners fire for every session the component created: whatever a session fires at its own
        # listeners must also reach the component-level listeners, for the same session
        from collections import Counter
        want = Counter(self.session_events)
        got = Counter(e for e in self.events if e[0] in ("connect", "join", "ready", "leave", "disconnect"))
        if want != got:
            missing = list((want - got).elements())[:3]
            extra = list((got - want).elements())[:3]
            run.violate("C14.listeners", "component-listeners-differ:%s" % ("missing-" + missing[0][0] if missing else "extra-" + extra[0][0]),
                        "missing %r extra %r" % (missing, extra))
        if len(self.created_sessions) >= 2:
            run.probe("several-sessions-created")
        run.probe("attempts", len(self.attempts))

    def clean_disconnect(self):
        # a clean transport close also completes the connection future successfully
        return any(e[0] == "disconnect" for e in self.events)

    def any_unlimited_exhausted(self):
        return False

    def session_opened(self, a):
        p = a.conn["c"].p
        return getattr(p, "_session", None) is not None or any(ev for ev in self.events if ev[0] == "connect")

    def client_saw_welcome(self, a):
        from autobahn.wamp import message as M
        # the WELCOME reached the client iff the client session fired 'join'; approximated by the router
        # having sent it and the link having delivered everything (checked in drain)
        s2c = a.conn["s2c"]
        return s2c.delivered == s2c.total and not s2c.rst

    def nontrivial(self):
        return len(self.attempts) >= 2

    def sample(self):
        return {"config": {k: repr(v) for k, v in self.cfg.items()}, "transports": self.tspec,
                "attempts": [{"n": a.n, "transport": a.idx, "t": round(a.time, 4), "outcome": a.outcome, "joined": a.joined} for a in self.attempts][:20],
                "done": repr(self.done.state())[:120]}
