"""
C12 - per-message compression is lossless and negotiated soundly.

Modes:
  pair     real client <-> real server with a PMCE negotiated from a drawn point of the
           permessage-deflate offer / offer-accept / response-accept lattice (or bzip2 / brotli);
           message sequences in both directions where later messages repeat earlier content,
           doNotCompress, fragmentation, frame and prepared APIs, seeded segmentation.
  hostile  real client vs scripted server whose 101 response names unknown / repeated /
           ill-parameterised extensions or is declined by the accept policy (C07's client
           world, restricted to extension mutations).
  rsv      real endpoint with compression negotiated vs scripted peer sending compressed
           control frames / continuation frames with RSV1 among other frames (C02's world with
           compression forced on).
"""

import os
import random
import zlib

from sim.ref_ws import SenderMonitor
from worlds.ws import WsWorld, ws_classes

from checks import c02 as _c02
from checks import c07 as _c07

PROP = "C12"
MAX_STEPS = 200
WBITS = [0, 9, 10, 11, 12, 13, 14, 15]


def mode_for(index, tier):
    k = index % 8
    if k == 6:
        return "hostile"
    if k == 7:
        return "rsv"
    return "pair"


def World(run, mode="pair"):
    if mode == "hostile":
        w = _c07.World(run, "client")
        w.P = PROP
        w.PROP = PROP
        w.force = {"deflate": run.ch.pick(("offer", "offer-deny", "none"), "hostile-deflate")}
        w.resp_mutations = ["none", "ext-unknown", "ext-not-offered", "ext-repeat", "ext-dup-header", "ext-bad-param"]
        return w
    if mode == "rsv":
        w = _c02.World(run, "gen")
        w.P = PROP
        w.PROP = PROP
        w.force = {"deflate": True}
        return w
    return PairWorld(run)


class Codec:
    """Independent decompressor for the wire monitor, per direction."""

    def __init__(self, kind, wbits=15, nct=False):
        self.kind = kind
        self.wbits = wbits or 15
        self.nct = nct
        self.d = None

    def decompress(self, data):
        if self.kind == "deflate":
            if self.d is None or self.nct:
                self.d = zlib.decompressobj(-self.wbits)
            return self.d.decompress(data + b"\x00\x00\xff\xff")
        if self.kind == "bzip2":
            import bz2
            return bz2.BZ2Decompressor().decompress(data)
        if self.kind == "brotli":
            import brotli
            if self.d is None or self.nct:
                self.d = brotli.Decompressor()
            out = [self.d.process(data)]
            while not self.d.is_finished():
                more = self.d.process(b"")
                if not more:
                    break
                out.append(more)
            return b"".join(out)
        raise ValueError(self.kind)


class LazyCodec:
    """Reads the *sender's* own negotiated parameters the first time a compressed message has to
    be decoded (messages may be written in the very step in which the handshake completes)."""

    def __init__(self, ep, kind):
        self.ep = ep
        self.kind = kind
        self.codec = None

    def decompress(self, data):
        if self.codec is None:
            pm = self.ep.p._perMessageCompress
            side = "server" if self.ep.is_server else "client"
            if self.kind == "deflate":
                self.codec = Codec("deflate", getattr(pm, side + "_max_window_bits"), getattr(pm, side + "_no_context_takeover"))
            elif self.kind == "bzip2":
                self.codec = Codec("bzip2")
            else:
                self.codec = Codec("brotli", nct=getattr(pm, side + "_no_context_takeover"))
        return self.codec.decompress(data)


def corpus(token, n, kind, shared):
    """Payload of n octets.  'repeat' re-uses the shared block (so that context takeover and the
    window size matter), 'random' is incompressible, 'text' is compressible."""
    if n == 0:
        return b""
    if kind == "random":
        return random.Random(token).randbytes(n)
    if kind == "repeat":
        return (shared * (n // len(shared) + 1))[:n]
    return ((b"%s lorem ipsum dolor sit amet " % token.encode()) * (n // 20 + 1))[:n]


class PairWorld(WsWorld):
    PROP = PROP

    def __init__(self, run):
        WsWorld.__init__(self, run)
        self.mode = "pair"

    def build(self):
        ch = self.run.ch
        self.make_reactor(0.0)
        aw, RecServer, RecClient = ws_classes()
        from autobahn.websocket import compress as C
        cfg = self.cfg = {}
        kind = cfg["codec"] = ch.pick(("deflate", "deflate", "deflate", "bzip2", "brotli"), "codec")
        kw = self.fw.factory_kw(self.reactor)
        sfac = aw.WebSocketServerFactory("ws://localhost:9000", **kw)
        cfac = aw.WebSocketClientFactory("ws://localhost:9000", **kw)
        cfg["fragC"] = ch.pick((0, 0, 1, 7, 1000), "fragC")
        cfg["fragS"] = ch.pick((0, 0, 1, 7, 1000), "fragS")
        # a limit on the message size (wire octets) on both ends: a send that would exceed it is refused with
        # PayloadExceededError - and must leave the compression context as it was
        cfg["send_limit"] = ch.pick((0, 3000, 20000), "maxMessagePayloadSize", (3, 1, 1))
        self.accept_err = []
        if kind == "deflate":
            o = cfg["offer"] = {
                "accept_no_context_takeover": ch.flag("o.accept_nct", 0.6),
                "accept_max_window_bits": ch.flag("o.accept_mwb", 0.6),
                "request_no_context_takeover": ch.flag("o.req_nct", 0.4),
                "request_max_window_bits": ch.pick(WBITS, "o.req_mwb", [4] + [1] * 7),
            }
            a = cfg["accept"] = {
                "request_no_context_takeover": o["accept_no_context_takeover"] and ch.flag("a.req_nct", 0.5),
                "request_max_window_bits": ch.pick(WBITS, "a.req_mwb", [4] + [1] * 7) if o["accept_max_window_bits"] else 0,
                "no_context_takeover": ch.pick((None, True, False), "a.nct"),
                "window_bits": ch.pick([None] + WBITS[1:], "a.wbits", [4] + [1] * 7),
                "mem_level": ch.pick((None, 1, 4, 8, 9), "a.mem"),
            }
            # keep the accept compatible with the offer (the constructor refuses otherwise)
            if o["request_no_context_takeover"] and a["no_context_takeover"] is False:
                a["no_context_takeover"] = None
            if a["window_bits"] is not None and o["request_max_window_bits"] and a["window_bits"] > o["request_max_window_bits"]:
                a["window_bits"] = o["request_max_window_bits"]
            r = cfg["raccept"] = {
                "no_context_takeover": ch.pick((None, True, False), "r.nct"),
                "window_bits": ch.pick([None] + WBITS[1:], "r.wbits", [4] + [1] * 7),
                "mem_level": ch.pick((None, 1, 8, 9), "r.mem"),
            }
            offer = C.PerMessageDeflateOffer(**o)
            # a decompression size limit on either end (messages of this run then stay within it: the limit itself is
            # C16's business; here it must not disturb lossless transport of what fits)
            mms = cfg["mms"] = ch.pick((None, 1024, 4096, 200000), "max-message-size", (5, 1.5, 1, 1))
            if mms:
                which = ch.pick(("both", "server", "client"), "mms-side")
                if which in ("both", "server"):
                    a["max_message_size"] = mms
                if which in ("both", "client"):
                    r["max_message_size"] = mms

            # (an accept policy written the way the library's examples are: it looks at what the *parsed* offer says the client
            # can accept, and asks for a client window only then)
            reads_offer = cfg["accept_reads_offer"] = ch.flag("accept-policy-reads-the-parsed-offer", 0.3)

            def s_accept(offers):
                for of in offers:
                    if isinstance(of, C.PerMessageDeflateOffer):
                        aa = dict(a)
                        if reads_offer:
                            aa["request_max_window_bits"] = (a["request_max_window_bits"] or 10) if of.accept_max_window_bits else 0
                            if not of.accept_no_context_takeover:
                                aa["request_no_context_takeover"] = False
                        return C.PerMessageDeflateOfferAccept(of, **aa)

            def c_accept(resp):
                rr = dict(r)
                if resp.client_no_context_takeover and rr["no_context_takeover"] is False:
                    rr["no_context_takeover"] = None
                if rr["window_bits"] is not None and resp.client_max_window_bits and rr["window_bits"] > resp.client_max_window_bits:
                    rr["window_bits"] = resp.client_max_window_bits
                self.raccept_eff = rr
                return C.PerMessageDeflateResponseAccept(resp, **rr)
            offers = [offer]
        elif kind == "bzip2":
            offer = C.PerMessageBzip2Offer(accept_max_compress_level=ch.flag("bz.accept"),
                                           request_max_compress_level=ch.pick((0, 1, 9), "bz.req"))

            def s_accept(offers):
                for of in offers:
                    if isinstance(of, C.PerMessageBzip2Offer):
                        return C.PerMessageBzip2OfferAccept(of)

            def c_accept(resp):
                return C.PerMessageBzip2ResponseAccept(resp)
            offers = [offer]
        else:
            o = cfg["offer"] = {"accept_no_context_takeover": ch.flag("br.accept_nct"), "request_no_context_takeover": ch.flag("br.req_nct")}
            a = cfg["accept"] = {"request_no_context_takeover": o["accept_no_context_takeover"] and ch.flag("br.a.req_nct")}
            offer = C.PerMessageBrotliOffer(**o)

            def s_accept(offers):
                for of in offers:
                    if isinstance(of, C.PerMessageBrotliOffer):
                        return C.PerMessageBrotliOfferAccept(of, **a)

            def c_accept(resp):
                return C.PerMessageBrotliResponseAccept(resp)
            offers = [offer]
        sfac.setProtocolOptions(perMessageCompressionAccept=s_accept, autoFragmentSize=cfg["fragS"], openHandshakeTimeout=0,
                                maxMessagePayloadSize=cfg["send_limit"])
        cfac.setProtocolOptions(maxMessagePayloadSize=cfg["send_limit"])
        cfac.setProtocolOptions(perMessageCompressionOffers=offers, perMessageCompressionAccept=c_accept,
                                autoFragmentSize=cfg["fragC"], openHandshakeTimeout=0)
        self.cfac, self.sfac = cfac, sfac
        if kind == "deflate" and ch.flag("earlier-connection-with-default-parameters", 0.2) and not os.environ.get("VERIF_NO_DECOY"):
            # an earlier connection of this process - other factories, the default offer (window 2^15, default memory
            # level), compressed traffic both ways: nothing it leaves behind may reach the judged connection's codecs
            dsfac = aw.WebSocketServerFactory("ws://localhost:9000", **kw)
            dcfac = aw.WebSocketClientFactory("ws://localhost:9000", **kw)
            dsfac.setProtocolOptions(perMessageCompressionAccept=lambda offers: C.PerMessageDeflateOfferAccept(offers[0]) if offers else None,
                                     openHandshakeTimeout=0)
            dcfac.setProtocolOptions(perMessageCompressionOffers=[C.PerMessageDeflateOffer()],
                                     perMessageCompressionAccept=lambda r: C.PerMessageDeflateResponseAccept(r), openHandshakeTimeout=0)
            aw2, RecServer2, RecClient2 = ws_classes()
            dsfac.protocol, dcfac.protocol = RecServer2, RecClient2

            def chat(dc, ds):
                blob = corpus("decoy", 5000, "text", b"")
                dc.p.sendMessage(blob, True)
                ds.p.sendMessage(blob[::-1], True)
                dc.p.sendMessage(blob[:2000], True)
            self.decoy_pair(dcfac, dsfac, chat)
        c, s = self.build_pair(cfac, sfac)
        c.monitor = SenderMonitor("must", True, LazyCodec(c, kind))
        s.monitor = SenderMonitor("mustnot", True, LazyCodec(s, kind))
        self.shared = corpus("shared", 3000, "random", b"")
        for ep in (c, s):
            ep.sent = []
            ep.sent_flags = []
            ep.refused_sends = 0
            ep.plan = self.make_plan(ep)
            ep.plan_pos = 0
        self.run.log("cfg", sorted((k, repr(v)) for k, v in cfg.items()))
        self.run.abstract("cfg", repr(sorted((k, repr(v)) for k, v in cfg.items())))
        self.start(s)
        self.start(c)

    def make_plan(self, ep):
        ch = self.run.ch
        n = 1 + ch.choose(7, "nmsgs")
        plan = []
        budget = 300000
        frag = self.cfg["fragC"] if ep.name == "C" else self.cfg["fragS"]
        for i in range(n):
            L = ch.pick((0, 1, 50, 600, 3000, 9000, 40000, 70000), "len", (1, 1, 2, 3, 3, 2, 1.5, 1))
            kind = ch.pick(("text", "repeat", "random"), "kind", (2, 4, 2))
            api = ch.pick(("message", "frame", "prepared"), "api", (5, 2, 1.5))
            fs = ch.pick((None, 1, 100, 5000), "fragsize", (5, 1, 1, 1)) if api == "message" else None
            eff = fs or (frag if api != "frame" else 0)
            if eff and L // eff > 500:
                L = 300
            if L > budget:
                L = 50
            mms = self.cfg.get("mms")
            if mms and L > mms:
                L = mms - ch.choose(120, "below-mms")
            lim = self.cfg.get("send_limit")
            if lim and L > lim // 2 and not (api == "message" and kind == "random" and L > lim + 200):
                # (only sendMessage() checks the limit on the sending side, and against the octets that would go on the
                # wire: the frame and prepared APIs, or a well-compressible message, would put a message on the wire
                # that the receiver then rightly refuses.  What stays over the limit is refused by the sender whether
                # compressed or not)
                L = lim // 2 - ch.choose(100, "below-limit")  # (margin: compression may expand incompressible data)
            budget -= L
            plan.append({"len": L, "kind": kind, "api": api, "fragsize": fs, "dnc": ch.flag("doNotCompress", 0.2),
                         "binary": ch.flag("binary", 0.7), "token": "%s%d" % (ep.name, i),
                         "cuts": [ch.choose(L + 1, "cut") for _ in range(ch.choose(3, "ncuts"))] if api == "frame" else [],
                         "interject": api == "frame" and ch.flag("whole-message-before-first-frame", 0.25)})
        return plan

    def extra_actions(self):
        acts = []
        for ep in self.eps:
            if ep.plan_pos < len(ep.plan) and ep.p._st == 3 and any(e[0] == "onOpen" for e in ep.events):
                acts.append((3.0, "app:" + ep.name, lambda ep=ep: self.fw.call(self, self.exec_op, ep)))
        return acts

    def exec_op(self, ep):
        op = ep.plan[ep.plan_pos]
        ep.plan_pos += 1
        p = ep.p
        payload = corpus(op["token"], op["len"], op["kind"], self.shared)
        binary = op["binary"] or op["kind"] != "text"
        self.run.log("app", ep.name, op["api"], op["len"], op["kind"], op["dnc"])
        from autobahn.exception import PayloadExceededError
        try:
            if op["api"] == "message":
                p.sendMessage(payload, binary, fragmentSize=op["fragsize"], doNotCompress=op["dnc"])
            elif op["api"] == "frame":
                cuts = sorted(set(c for c in op["cuts"] if 0 < c < len(payload)))
                p.beginMessage(binary, doNotCompress=op["dnc"])
                if op["interject"]:
                    # a whole message (e.g. a reply sent from onMessage) goes out after beginMessage() but before the
                    # first frame of the begun message: legal on the wire, and each keeps its own compression flag
                    small = corpus(op["token"] + "i", 40, "repeat", self.shared)
                    p.sendMessage(small, True, doNotCompress=not op["dnc"])
                    ep.sent.append((small, True))
                    ep.sent_flags.append(not op["dnc"])
                    self.run.probe("whole-message-between-begin-and-first-frame")
                prev = 0
                for c in cuts + [len(payload)]:
                    p.sendMessageFrame(payload[prev:c])
                    prev = c
                p.endMessage()
            else:
                fac = self.cfac if ep.name == "C" else self.sfac
                p.sendPreparedMessage(fac.prepareMessage(payload, binary, doNotCompress=op["dnc"]))
        except PayloadExceededError as e:
            limit = self.cfg.get("send_limit")
            if limit and len(payload) > limit:
                # refused (its wire size exceeds the limit): nothing of it is on the wire, later messages are unaffected
                self.run.probe("send-refused-by-size-limit")
                ep.refused_sends += 1
                return
            self.run.violate("C12.lossless", "send-refused-within-limit:%s" % self.cfg["codec"], "%d octets, limit %r: %r" % (len(payload), limit, e))
            return
        except Exception as e:  # noqa
            from worlds.ws import exc_site
            self.run.violate("C12.lossless", "send-raises:%s:%s:%s" % (self.cfg["codec"], type(e).__name__, exc_site(e)),
                             "%s message #%d: %r" % (ep.name, ep.plan_pos - 1, e))
            ep.plan_pos = len(ep.plan)
            return
        ep.sent.append((payload, binary))
        ep.sent_flags.append(op["dnc"])

    def received(self, ep):
        return [(e[1], e[2]) for e in ep.events if e[0] == "onMessage"]

    def setup_monitors(self):
        """Once both ends are open: read the negotiated parameters, check them, arm the monitors'
        decompressors with what each *sender* says it uses."""
        if getattr(self, "_neg_done", False):
            return
        c, s = self.client, self.server
        if c.p._st != 3 or s.p._st != 3:
            return
        pc, ps = c.p._perMessageCompress, s.p._perMessageCompress
        if pc is None or ps is None:
            return
        self._neg_done = True
        run = self.run
        kind = self.cfg["codec"]
        run.probe("negotiated:" + kind)
        if kind == "deflate":
            # C->S: compressor = client's client_* values, decompressor = server's client_* values
            for name, comp, dec, wb, nct in (
                    ("c2s", pc, ps, "client_max_window_bits", "client_no_context_takeover"),
                    ("s2c", ps, pc, "server_max_window_bits", "server_no_context_takeover")):
                cw, dw = getattr(comp, wb), getattr(dec, wb)
                cn, dn = getattr(comp, nct), getattr(dec, nct)
                if dw < cw:
                    run.violate("C12.ends-compatible", "decompressor-window-smaller:" + name, "compressor %d, decompressor %d" % (cw, dw))
                if (not cn) and dn:
                    run.violate("C12.ends-compatible", "compressor-keeps-context-decompressor-does-not:" + name, "")
            self.check_answer_within_offer()
        elif kind == "bzip2":
            pass
        else:
            for name, comp, dec, nct in (("c2s", pc, ps, "client_no_context_takeover"), ("s2c", ps, pc, "server_no_context_takeover")):
                if (not getattr(comp, nct)) and getattr(dec, nct):
                    run.violate("C12.ends-compatible", "compressor-keeps-context-decompressor-does-not:" + name, "")

    def check_answer_within_offer(self):
        """The server's Sec-WebSocket-Extensions answer may only contain what the offer permits."""
        run = self.run
        o = self.cfg["offer"]
        out = bytes(self.server.http_out)
        ext = None
        for line in out.split(b"\r\n"):
            if line.lower().startswith(b"sec-websocket-extensions:"):
                ext = line.split(b":", 1)[1].strip().decode()
        if ext is None:
            run.violate("C12.answer-within-offer", "no-extension-header-but-compression-on", "")
            return
        items = [x.strip() for x in ext.split(";")]
        if items[0] != "permessage-deflate" or "," in ext:
            run.violate("C12.answer-within-offer", "unexpected-extension-answer", ext)
            return
        seen = set()
        for it in items[1:]:
            k, _, v = it.partition("=")
            k = k.strip()
            if k in seen:
                run.violate("C12.answer-within-offer", "duplicate-parameter:" + k, ext)
            seen.add(k)
            if k == "client_no_context_takeover":
                if not o["accept_no_context_takeover"]:
                    run.violate("C12.answer-within-offer", "client_no_context_takeover-not-offered", ext)
            elif k == "client_max_window_bits":
                if not o["accept_max_window_bits"]:
                    run.violate("C12.answer-within-offer", "client_max_window_bits-not-offered", ext)
                if not v.isdigit() or not (9 <= int(v) <= 15):
                    run.violate("C12.answer-within-offer", "client_max_window_bits-out-of-range", ext)
            elif k == "server_max_window_bits":
                if not v.isdigit() or not (9 <= int(v) <= 15):
                    run.violate("C12.answer-within-offer", "server_max_window_bits-out-of-range", ext)
                elif o["request_max_window_bits"] and int(v) > o["request_max_window_bits"]:
                    run.violate("C12.answer-within-offer", "server_max_window_bits-above-request", ext)
            elif k == "server_no_context_takeover":
                pass
            else:
                run.violate("C12.answer-within-offer", "unknown-parameter:" + k, ext)
        if o["request_no_context_takeover"] and "server_no_context_takeover" not in seen:
            run.violate("C12.answer-within-offer", "requested-server_no_context_takeover-not-confirmed", ext)
        if o["request_max_window_bits"] and "server_max_window_bits" not in seen:
            run.violate("C12.answer-within-offer", "requested-server_max_window_bits-not-confirmed", ext)

    def check_step(self):
        self.check_escapes()
        self.setup_monitors()
        run = self.run
        for snd, rcv in ((self.client, self.server), (self.server, self.client)):
            m = snd.monitor
            for suffix, sig, detail in m.errors:
                run.violate("C12.lossless" if suffix == "wire-wellformed" else "C12." + suffix,
                            "wire:" + sig, "%s: %s" % (snd.name, detail))
            del m.errors[:]
            got = self.received(rcv)
            if len(got) > len(snd.sent) or got != snd.sent[:len(got)]:
                if not getattr(rcv, "_rep", False):
                    rcv._rep = True
                    k = 0
                    while k < len(got) and k < len(snd.sent) and got[k] == snd.sent[k]:
                        k += 1
                    run.violate("C12.lossless", "delivery-differs:%s:msg%s" % (self.cfg["codec"], "0" if k == 0 else "N"),
                                "%s->%s message #%d" % (snd.name, rcv.name, k))
            # flagged-uncompressed
            for i, (data, b, comp, nfr) in enumerate(m.messages):
                if i < len(snd.sent_flags) and not getattr(snd, "_dnc_rep", False):
                    if snd.sent_flags[i] and comp:
                        snd._dnc_rep = True
                        run.violate("C12.flagged-uncompressed", "doNotCompress-message-compressed", "%s #%d" % (snd.name, i))
                    if (not snd.sent_flags[i] and not comp and getattr(self, "_neg_done", False)
                            and not (snd.refused_sends and self.cfg["codec"] == "brotli")):
                        # (a brotli stream with context takeover cannot be restarted after a refused send has consumed
                        # part of it: that direction may go on uncompressed - still lossless, which is what is stated)
                        snd._dnc_rep = True
                        run.violate("C12.flagged-uncompressed", "message-not-compressed-though-negotiated", "%s #%d" % (snd.name, i))
            wire = [(d, b) for d, b, _, _ in m.messages]
            if (len(wire) > len(snd.sent) or wire != snd.sent[:len(wire)]) and not getattr(snd, "_wrep", False):
                snd._wrep = True
                run.violate("C12.lossless", "sender-octets-undecodable-or-different:" + self.cfg["codec"], snd.name)

    def drain(self):
        guard = 0
        while guard < 30:
            guard += 1
            WsWorld.drain(self)
            if self.run.fatal:
                return
            pending = [ep for ep in self.eps if ep.plan_pos < len(ep.plan) and ep.p._st == 3
                       and any(e[0] == "onOpen" for e in ep.events)]
            if not pending:
                break
            for ep in pending:
                self.fw.call(self, self.exec_op, ep)
                self.check_step()
        WsWorld.drain(self)

    def final(self):
        self.check_step()
        run = self.run
        c, s = self.client, self.server
        if not getattr(self, "_neg_done", False):
            if c.closed_cb is not None or s.closed_cb is not None:
                run.violate("C12.ends-compatible", "negotiation-failed:" + self.cfg["codec"], "%r %r" % (c.closed_cb, s.closed_cb))
            return
        for snd, rcv in ((c, s), (s, c)):
            got = self.received(rcv)
            if got != snd.sent and not getattr(rcv, "_rep", False):
                run.violate("C12.lossless", "missing-at-quiescence:" + self.cfg["codec"], "%s->%s %d of %d" % (snd.name, rcv.name, len(got), len(snd.sent)))
        for ep in self.eps:
            if ep.closed_cb is not None:
                run.violate("C12.lossless", "connection-closed:" + self.cfg["codec"], "%s %r" % (ep.name, ep.closed_cb))

    def on_escape(self, ep, where, exc):
        from worlds.ws import exc_site
        self.run.violate("C12.lossless", "receive-raises:%s:%s:%s" % (self.cfg["codec"], type(exc).__name__, exc_site(exc)), repr(exc))

    def nontrivial(self):
        return getattr(self, "_neg_done", False) and sum(len(self.received(ep)) for ep in self.eps) >= 2

    def sample(self):
        s = WsWorld.sample(self)
        s["plan"] = {ep.name: [{k: v for k, v in op.items() if k in ("len", "kind", "api", "dnc")} for op in ep.plan] for ep in self.eps}
        return s
