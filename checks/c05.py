"""
C05 - WebSocket connections close exactly once, in order, and in bounded time.

Worlds: raw-peer (one real endpoint, adversarial scripted peer) and pair (real client and
real server).  See DESIGN.md section 4 / C05 for the clause list.
"""

import struct

from sim import backend
from sim.ref_ws import SenderMonitor, encode_frame, is_utf8
from worlds.ws import WsWorld, ws_classes

PROP = "C05"
MAX_STEPS = 120

REASONS = ["", "bye", "x" * 123, "y" * 124, "é" * 61, "é" * 62, "€" * 41, "€" * 42,
           "\U0001f600" * 30, "\U0001f600" * 31, "a" + "\U0001f600" * 31, "z" * 400]

LEGAL_WIRE = set(range(1000, 1004)) | set(range(1007, 1015)) | set(range(3000, 5000))

PEER_CLOSE_KINDS = ["valid1000", "empty", "valid3000reason", "valid4999", "valid1001", "code1005", "code1006",
                    "code999", "code5000", "code1004", "code1015", "code2999", "code1016", "badutf8", "len1",
                    "longreason", "code0", "code65535"]


def peer_close_payload(kind):
    if kind == "valid1000":
        return struct.pack("!H", 1000)
    if kind == "empty":
        return b""
    if kind == "valid3000reason":
        return struct.pack("!H", 3000) + "grüße".encode("utf8")
    if kind == "valid4999":
        return struct.pack("!H", 4999) + b"private"
    if kind == "valid1001":
        return struct.pack("!H", 1001) + b"going away"
    if kind == "badutf8":
        return struct.pack("!H", 1000) + b"\xff\xfe bad"
    if kind == "len1":
        return b"\x03"
    if kind == "longreason":
        return struct.pack("!H", 1000) + ("€" * 41).encode("utf8")
    if kind.startswith("code"):
        return struct.pack("!H", int(kind[4:])) + b"r"
    raise ValueError(kind)


def peer_close_validity(payload):
    """'valid' / 'invalid' for a close payload per RFC 6455 (1012-1014: 'either')."""
    if len(payload) == 0:
        return "valid"
    if len(payload) == 1:
        return "invalid"
    code = struct.unpack("!H", payload[:2])[0]
    if not is_utf8(payload[2:]):
        return "invalid"
    if code in (1012, 1013, 1014):
        return "either"
    if code in LEGAL_WIRE:
        return "valid"
    return "invalid"


class World(WsWorld):
    PROP = PROP

    def __init__(self, run, mode=None):
        WsWorld.__init__(self, run)
        self.mode = mode
        self.ops_left = 0
        self.peer_sent_close = False
        self.peer_closed_tcp = False

    # --- configuration -------------------------------------------------------------------------
    def build(self):
        ch = self.run.ch
        self.make_reactor(ch.pick(self.START_OFFSETS, "start"))
        aw, RecServer, RecClient = ws_classes()
        self.kind = ch.pick(("raw-server", "raw-client", "pair", "hs-server", "hs-client"), "kind",
                            (3, 3, 3, 1.5, 1.5)) if self.mode is None else self.mode
        cfg = self.cfg = {
            "failByDrop": ch.flag("failByDrop"),
            "echo": ch.flag("echo", 0.3),
            "chs": ch.pick((1, 0.5, 3, 0), "closeHandshakeTimeout", (4, 2, 2, 1)),
            "scdt": ch.pick((1, 2, 0), "serverConnectionDropTimeout", (4, 2, 1)),
            "autoping": ch.flag("autoping", 0.25),
            "pingRestart": ch.flag("pingRestart"),
        }
        self.ops_left = 4 + ch.choose(9, "nops")
        opts = dict(failByDrop=cfg["failByDrop"], echoCloseCodeReason=cfg["echo"], closeHandshakeTimeout=cfg["chs"],
                    openHandshakeTimeout=5)
        if cfg["autoping"]:
            opts.update(autoPingInterval=2, autoPingTimeout=2, autoPingRestartOnAnyTraffic=cfg["pingRestart"])

        def sfac():
            f = aw.WebSocketServerFactory("ws://localhost:9000", **self.fw.factory_kw(self.reactor))
            f.setProtocolOptions(**opts)
            return f

        def cfac():
            f = aw.WebSocketClientFactory("ws://localhost:9000", **self.fw.factory_kw(self.reactor))
            f.setProtocolOptions(serverConnectionDropTimeout=cfg["scdt"], **opts)
            return f

        self.run.log("cfg", self.kind, sorted(cfg.items()))
        if self.kind == "pair":
            c, s = self.build_pair(cfac(), sfac())
            c.monitor = SenderMonitor("must")
            s.monitor = SenderMonitor("mustnot")
            self.start(s)
            self.start(c)
            self.handshake_pair()
        elif self.kind in ("hs-server", "hs-client"):
            # opening handshake explored too: the user's onConnect/onConnecting may return a
            # pending future which the scheduler resolves later, while the connection may be
            # lost or time out in between
            is_server = self.kind == "hs-server"
            e, peer = self.build_raw(sfac() if is_server else cfac(), is_server)
            e.monitor = SenderMonitor("mustnot" if is_server else "must")
            self.pending = []
            self.hs_async = ch.flag("async-user-callback", 0.6)

            def deferred_hook(*a):
                if not self.hs_async:
                    return None
                f = self.fw.new_future(self)
                self.pending.append(f)
                return f
            e.hooks["on_connect"] = deferred_hook
            if not is_server:
                e.hooks["on_connecting"] = deferred_hook
            self.start(e)
            self.hs_sent = False
            self.ops_left = min(self.ops_left, 6)
        else:
            is_server = self.kind == "raw-server"
            e, peer = self.build_raw(sfac() if is_server else cfac(), is_server)
            e.monitor = SenderMonitor("mustnot" if is_server else "must")
            self.start(e)
            self.handshake_raw(is_server)
        self.t_build_done = self.now()
        # the application may act from inside its callbacks: an operation (often a close) issued from onMessage while
        # the library is still working through the chunk that carried the message - and possibly the peer's close frame
        for ep in self.eps:
            if ch.flag("app-op-inside-onMessage", 0.25):
                def on_message(payload, is_binary, ep=ep):
                    if self.ops_left > 0:
                        self.run.probe("app-op-inside-onMessage")
                        self._app_op(ep)
                ep.hooks["on_message"] = on_message
            # ... and from inside the close notification itself (a broadcast that still includes the closing connection, a
            # farewell message, a second sendClose): the connection is closed by then, nothing may reach the transport
            if ch.flag("app-op-inside-onClose", 0.2):
                def on_close(was_clean, code, reason, ep=ep):
                    self.run.probe("app-op-inside-onClose")
                    self.ops_left += 1
                    self._app_op(ep)
                ep.hooks["on_close"] = on_close

    def handshake_pair(self):
        # opening handshake delivered whole (C07/C01 explore its segmentation)
        for _ in range(6):
            for ep in self.eps:
                ep.t.flush(None)
            for pipe, rcv in self.pipes:
                if pipe.buf and rcv.t.can_read():
                    chunk = pipe.take(len(pipe.buf))
                    rcv.on_delivered(chunk)
                    self.fw.deliver(self, rcv.t, chunk)
            self.fw.loop_drain(self)
        self.check_escapes()

    def handshake_raw(self, is_server):
        e = self.e
        if is_server:
            self.peer.send(self.client_request_bytes())
        else:
            e.t.flush(None)
            self.fw.loop_drain(self)
            self.peer.send(self.server_response_bytes(bytes(self.peer.received)))
        chunk = self.p2e.take(len(self.p2e.buf))
        e.on_delivered(chunk)
        self.fw.deliver(self, e.t, chunk)
        self.fw.loop_drain(self)
        e.t.flush(None)
        self.check_escapes()

    # --- workload ----------------------------------------------------------------------------------
    def hs_actions(self):
        acts = []
        e = self.e
        if self.pending:
            acts.append((2.0, "resolve-user-future", self.resolve_pending))
        if not self.hs_sent and not self.peer.closed:
            if e.is_server:
                acts.append((4.0, "peer-hs", self.peer_handshake))
            elif b"\r\n\r\n" in bytes(self.peer.received):
                acts.append((4.0, "peer-hs", self.peer_handshake))
        return acts

    def resolve_pending(self):
        f = self.pending.pop(0)
        self.run.probe("user-future-resolved-late")
        self.fw.call(self, self.fw.resolve_future, f, None)

    def peer_handshake(self):
        self.hs_sent = True
        if self.e.is_server:
            self.peer.send(self.client_request_bytes())
        else:
            self.peer.send(self.server_response_bytes(bytes(self.peer.received)))

    def extra_actions(self):
        pre = self.hs_actions() if self.kind.startswith("hs-") else []
        if self.ops_left <= 0:
            return pre
        acts = pre
        for ep in self.eps:
            if ep.closed_cb is None or self.run.ch is None:
                acts.append((2.0, "app:" + ep.name, lambda ep=ep: self.app_op(ep)))
            else:
                acts.append((0.3, "app-after-close:" + ep.name, lambda ep=ep: self.app_op(ep)))
        if self.peer is not None and not self.peer.closed:
            if self.kind.startswith("hs-") and not self.hs_sent:
                # before the handshake the only peer events of interest are TCP-level
                acts.append((1.2, "peer-tcp", self.peer_tcp_op))
            else:
                acts.append((2.5, "peer", self.peer_op))
        return acts

    def app_op(self, ep):
        self.fw.call(self, self._app_op, ep)

    def _app_op(self, ep):
        ch = self.run.ch
        self.ops_left -= 1
        p = ep.p
        op = ch.pick(("close", "close1000", "closeReason", "closeBad", "send", "sendSync", "ping", "sendChop",
                      "frameApi", "frameBegin", "frameEnd"), "appop", (4, 2, 4, 1, 3, 2, 1, 1, 1, 1, 1.5))
        # a message begun through the frame API and ended later - possibly after the connection has started closing or is
        # gone: the late endMessage() writes nothing.  (While it is open, whole-message sends are not legal: skipped.)
        if getattr(ep, "stream_begun", False):
            if op in ("send", "sendSync", "sendChop", "frameApi", "frameBegin"):
                op = "frameEnd"
        elif op == "frameEnd":
            op = "ping"
        self.run.log("app", ep.name, op, ep.state_name())
        try:
            if op == "close":
                p.sendClose()
            elif op == "close1000":
                p.sendClose(1000)
            elif op == "closeReason":
                code = ch.pick((3000, 4999, 1000, 3999, 4000), "code")
                reason = ch.pick(REASONS, "reason")
                p.sendClose(code, reason)
            elif op == "closeBad":
                which = ch.choose(5, "bad")
                try:
                    if which == 0:
                        p.sendClose(1005)
                    elif which == 1:
                        p.sendClose(None, "reason-without-code")
                    elif which == 2:
                        p.sendClose(5000, "x")
                    elif which == 3:
                        p.sendClose(2999)
                    else:
                        p.sendClose(1000.0)
                    if ep.state_name() in ("open", "closing", "closed"):
                        self.run.violate("C05.legal-close-payload", "sendClose-accepted-illegal-args:%d" % which)
                except Exception:
                    pass
            elif op == "send":
                p.sendMessage(b"m" * ch.pick((1, 10, 200), "len"), ch.flag("bin"))
            elif op == "sendSync":
                p.sendMessage(b"s" * 5, True, sync=True)
                self.run.probe("synced-send")
            elif op == "ping":
                p.sendPing(b"pp")
            elif op == "sendChop":
                # low-level API without state check: only legal for the application while open
                if ep.state_name() == "open":
                    p.sendFrame(opcode=2, payload=b"c" * 9, chopsize=4)
                    self.run.probe("chopped-send")
            elif op == "frameApi":
                p.beginMessage(True)
                p.sendMessageFrame(b"ff")
                p.endMessage()
            elif op == "frameBegin":
                if ep.state_name() == "open":
                    p.beginMessage(True)
                    p.sendMessageFrame(b"fb")
                    ep.stream_begun = True
                    self.run.probe("message-begun-and-left-open")
            elif op == "frameEnd":
                ep.stream_begun = False
                if ep.state_name() != "open":
                    self.run.probe("endMessage-after-the-connection-left-open-state")
                p.endMessage()
        except Exception as e:
            # documented: sendMessage raises Disconnected when not open; sendClose raises
            # while still connecting.  Anything else is recorded for the step oracle.
            self.run.log("app-exc", ep.name, op, type(e).__name__)
            from autobahn.exception import Disconnected
            if not isinstance(e, Disconnected) and ep.state_name() in ("open",) and op not in ("closeBad",):
                self.run.violate("C05.api-raises", "%s:%s" % (op, type(e).__name__), repr(e))

    def peer_tcp_op(self):
        self.ops_left -= 1
        op = self.run.ch.pick(("fin", "rst"), "peertcp")
        self.run.log("peerop", op)
        if op == "fin":
            self.peer.fin()
            self.peer.closed = True
            self.run.fault("peer-fin-during-handshake")
        else:
            self.peer.rst()
            self.run.fault("peer-rst-during-handshake")

    def peer_op(self):
        ch = self.run.ch
        self.ops_left -= 1
        e = self.e
        mask = b"\x11\x22\x33\x44" if e.is_server else None
        op = ch.pick(("close", "data", "ping", "violation", "fin", "rst", "pong", "stall", "fragment"), "peerop",
                     (5, 2, 1.5, 1.5, 2, 1.5, 0.7, 0.7, 1))
        self.run.log("peerop", op)
        if op == "close":
            kind = ch.pick(PEER_CLOSE_KINDS, "closekind", [5, 3, 3, 1, 1] + [1] * (len(PEER_CLOSE_KINDS) - 5))
            payload = peer_close_payload(kind)
            self.peer.send(encode_frame(8, payload, mask=mask))
            self.peer_sent_close = True
            self.run.fault("peer-close:" + peer_close_validity(payload))
            if ch.flag("second-close-frame-right-behind", 0.2):
                # a misbehaving peer repeats itself with another (valid) code and reason: whatever follows its close
                # frame is to be discarded
                self.peer.send(encode_frame(8, struct.pack("!H", 4001) + b"second close frame", mask=mask))
                self.run.fault("peer-close:duplicate")
        elif op == "data":
            self.peer.send(encode_frame(ch.pick((1, 2), "op"), b"d" * ch.pick((0, 3, 130), "len"), mask=mask))
        elif op == "fragment":
            self.peer.send(encode_frame(1, b"frag", fin=False, mask=mask))
        elif op == "ping":
            self.peer.send(encode_frame(9, b"pi", mask=mask))
        elif op == "pong":
            self.peer.send(encode_frame(10, b"po", mask=mask))
        elif op == "violation":
            which = ch.choose(4, "viol")
            if which == 0:
                self.peer.send(encode_frame(3, b"", mask=mask))
            elif which == 1:
                self.peer.send(encode_frame(1, b"\xff\xff", mask=mask))
            elif which == 2:
                self.peer.send(encode_frame(9, b"", fin=False, mask=mask))
            else:
                self.peer.send(encode_frame(0, b"zz", mask=mask))
            self.run.fault("peer-violation")
        elif op == "fin":
            self.peer.fin()
            self.peer.closed = True
            self.run.fault("peer-fin")
        elif op == "rst":
            self.peer.rst()
            self.run.fault("peer-rst")
        elif op == "stall":
            self.p2e.stalled = not self.p2e.stalled
            self.run.fault("stall")

    # --- oracles -------------------------------------------------------------------------------------
    def check_step(self):
        self.check_escapes()
        run = self.run
        for ep in self.eps:
            m = ep.monitor
            if ep.onclose_count > 1:
                run.violate("C05.onclose-once", "onClose-x%d" % ep.onclose_count, ep.name)
            if ep.closed_cb is not None:
                if not ep.onclose_transport_gone:
                    run.violate("C05.onclose-once", "onClose-before-transport-gone", ep.name)
                    ep.onclose_transport_gone = True
                if ep.after_close_events:
                    run.violate("C05.silent-after-close", "callback:" + ep.after_close_events[0], ep.name)
                    ep.after_close_events = []
                if ep.writes_after_onclose:
                    run.violate("C05.silent-after-close", "write-after-onClose", ep.name)
                    ep.writes_after_onclose = 0
            for suffix, sig, detail in m.errors:
                run.violate("C05.%s" % suffix, sig, detail)
            del m.errors[:]
            if m.close_count > 1:
                run.violate("C05.one-close-frame", "close-frames:%d" % m.close_count, ep.name)
                m.close_count = 1
            if m.data_after_close:
                run.violate("C05.no-data-after-close", "data-frame-after-close", ep.name)
                m.data_after_close = 0
            if m.close_sent is not None and not getattr(ep, "_close_checked", False):
                ep._close_checked = True
                code, reason = m.close_sent
                if code is not None:
                    if code not in LEGAL_WIRE:
                        run.violate("C05.legal-close-payload", "code:%d" % code, ep.name)
                    if len(reason) > 123:
                        run.violate("C05.legal-close-payload", "reason-too-long:%d" % len(reason), ep.name)
                    if not is_utf8(reason):
                        run.violate("C05.legal-close-payload", "reason-not-utf8", ep.name)
            # clean-means-both, evaluated once at onClose
            if ep.closed_cb is not None and not getattr(ep, "_clean_checked", False):
                ep._clean_checked = True
                self.check_clean(ep)

    def check_clean(self, ep):
        run = self.run
        was_clean, code, reason = ep.closed_cb
        if not was_clean:
            if code != 1006:
                run.violate("C05.unclean-report", "unclean-code:%r" % (code,), ep.name)
            return
        run.probe("clean-close")
        m = ep.monitor
        got_peer_close = len(ep.rx_close_frames) > 0
        if not got_peer_close:
            run.violate("C05.clean-means-both", "clean-without-peer-close-frame", ep.name)
        # our close frame must have reached the wire: written to the transport and flushed
        # (whether Twisted's user-space buffer was flushed before the connection died is not
        # observable by the library; "travelled" is read as "handed to the transport")
        sent = m.close_count >= 1
        if not sent:
            if not ep.p.droppedByMe:
                how = "peer-dropped-while-own-close-frame-still-queued" if ep.queue_at_onclose else "peer-dropped"
            else:
                how = "own-drop"
            run.violate("C05.clean-means-both", "clean-without-own-close-frame-written:" + how, ep.name)
        if got_peer_close and all(peer_close_validity(pl) == "valid" for pl in ep.rx_close_frames):
            # an adversarial peer may send several close frames: the peer's close is the first one - whatever follows a
            # close frame is discarded (RFC 6455 section 1.4; the same rule that keeps messages after a close frame
            # from being delivered), so it cannot change what is reported
            cands = []
            for payload in ep.rx_close_frames[:1]:
                pcode = struct.unpack("!H", payload[:2])[0] if len(payload) >= 2 else None
                preason = payload[2:].decode("utf8") if len(payload) > 2 else None
                cands.append((pcode, preason))
            if (code, reason) not in cands:
                run.violate("C05.clean-means-both", "reported-not-peers",
                            "%s reported %r/%r, peer sent %r" % (ep.name, code, reason, cands))

    def close_frame_flushed(self, ep):
        """All octets up to the end of the first close frame left the transport buffer."""
        m = ep.monitor
        end = None
        for f in m.parser.frames:
            if f.opcode == 8:
                end = f.end
                break
        if end is None:
            return False
        return self.fw.flushed_total(ep.t) >= ep.wire_open_offset + end

    def final(self):
        run = self.run
        for ep in self.eps:
            st = ep.p._st
            if 2 in ep.state_times:  # entered CLOSING
                run.probe("entered-closing")
                t0 = ep.state_times[2]
                chs = self.cfg["chs"]
                bound = None
                if ep.is_server:
                    if chs > 0:
                        bound = chs
                else:
                    if chs > 0 and self.cfg["scdt"] > 0:
                        bound = chs + self.cfg["scdt"]
                    elif chs == 0 and self.cfg["scdt"] > 0 and st != 0 and len(ep.rx_close_frames) > 0 and ep.monitor.close_count >= 1 \
                            and all(peer_close_validity(pl) == "valid" for pl in ep.rx_close_frames):
                        # no limit on the peer's answer, but one on how long the server may keep TCP open after the close
                        # frames were exchanged: the drain has let far more than that pass
                        run.violate("C05.closed-in-bound", "never-closed:client:close-frames-exchanged:closeHandshakeTimeout=0", ep.name)
                if bound is not None:
                    if st != 0:
                        run.violate("C05.closed-in-bound", "never-closed:%s:closedByMe=%s" % (
                            "server" if ep.is_server else "client", ep.p.closedByMe), ep.name)
                    elif ep.state_times[0] - t0 > bound + 1e-6:
                        run.violate("C05.closed-in-bound", "late:%s:closedByMe=%s" % ("server" if ep.is_server else "client", ep.p.closedByMe),
                                    "%s closed %.3fs after closing began (bound %.3f)" % (ep.name, ep.state_times[0] - t0, bound))
            if st == 0 and ep.t.is_gone():
                if ep.onclose_count != 1:
                    run.violate("C05.onclose-once", "onClose-x%d-after-drop" % ep.onclose_count, ep.name)
            if st == 0 and not ep.t.is_gone():
                run.violate("C05.closed-in-bound", "closed-but-transport-alive", ep.name)
        self.check_step()

    def nontrivial(self):
        return any(2 in ep.state_times or ep.closed_cb is not None for ep in self.eps)
