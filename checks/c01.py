"""
C01 - WebSocket messages arrive intact, exactly once and in order.

Pair world (real client <-> real server), both directions carry traffic, every send API,
drawn options; the whole conversation including the opening handshake is delivered under a
seeded segmentation.  Oracles: delivery lists (prefix at every step, equal at quiescence in
fault-free runs) and the independent wire monitor on every octet written.
"""

import random

from sim.ref_ws import DeflateCodec, SenderMonitor
from worlds.ws import WsWorld, ws_classes

PROP = "C01"
MAX_STEPS = 260
MODES = ["clean", "clean", "clean", "cut"]

LENGTHS = [0, 1, 2, 3, 125, 126, 127, 128, 300, 1000, 65535, 65536, 65537, 131075]
LENGTH_W = [3, 3, 2, 2, 4, 4, 4, 2, 3, 2, 1.2, 1.2, 1.0, 0.5]
FRAGS = [0, 0, 0, 1, 2, 3, 125, 126, 127, 1000, 65535, 65536]
UCH = ["a", "é", "€", "\U0001f600", "z", "ß", "語"]


def make_payload(token, n, binary, incompressible=False):
    """Deterministic payload of exactly n octets embedding ``token`` when it fits."""
    tok = ("<%s>" % token).encode()
    if binary:
        if incompressible:
            body = random.Random(token).randbytes(n)
        else:
            body = (tok + bytes(range(256)) * (n // 256 + 1))[:n] if n >= len(tok) else bytes(range(n))
        return bytes(body)
    out = bytearray()
    if n >= len(tok):
        out += tok
    i = 0
    h = sum(token.encode()) if isinstance(token, str) else 0
    while len(out) < n:
        c = UCH[(i + h) % len(UCH)].encode("utf8")
        i += 1
        if len(out) + len(c) <= n:
            out += c
        else:
            out += b"x" * (n - len(out))
    return bytes(out)


class World(WsWorld):
    PROP = PROP

    def __init__(self, run, mode="clean"):
        WsWorld.__init__(self, run)
        self.mode = mode
        self.cut_done = False

    # --- configuration ---------------------------------------------------------------------
    def build(self):
        ch = self.run.ch
        self.make_reactor(0.0)
        aw, RecServer, RecClient = ws_classes()
        cfg = self.cfg = {}
        cfg["applyMask"] = not ch.flag("noApplyMask", 0.15)
        cfg["maskClient"] = not ch.flag("noMaskClient", 0.15)
        cfg["maskServer"] = ch.flag("maskServer", 0.2)
        cfg["utf8"] = not ch.flag("noUtf8", 0.15)
        cfg["deflate"] = ch.flag("deflate", 0.25)
        cfg["fragC"] = ch.pick(FRAGS, "fragC")
        cfg["fragS"] = ch.pick(FRAGS, "fragS")
        cfg["protocols"] = ch.flag("protocols", 0.3)
        cfg["headers"] = ch.flag("headers", 0.3)
        protos = ["p1.example", "p2"] if cfg["protocols"] else None
        hdrs = {"X-Test": "v" * (1 + ch.choose(40, "hlen"))} if cfg["headers"] else None

        sfac = aw.WebSocketServerFactory("ws://localhost:9000", protocols=protos, headers=hdrs,
                                         **self.fw.factory_kw(self.reactor))
        sopts = dict(applyMask=cfg["applyMask"], requireMaskedClientFrames=cfg["maskClient"],
                     maskServerFrames=cfg["maskServer"], utf8validateIncoming=cfg["utf8"],
                     autoFragmentSize=cfg["fragS"], openHandshakeTimeout=0, closeHandshakeTimeout=0)
        cfac = aw.WebSocketClientFactory("ws://localhost:9000", protocols=protos, headers=hdrs,
                                         **self.fw.factory_kw(self.reactor))
        copts = dict(applyMask=cfg["applyMask"], maskClientFrames=cfg["maskClient"],
                     acceptMaskedServerFrames=cfg["maskServer"], utf8validateIncoming=cfg["utf8"],
                     autoFragmentSize=cfg["fragC"], openHandshakeTimeout=0, closeHandshakeTimeout=0)
        if cfg["deflate"]:
            from autobahn.websocket.compress import (PerMessageDeflateOffer, PerMessageDeflateOfferAccept,
                                                     PerMessageDeflateResponseAccept)

            # (in part of the runs both directions run without context takeover: every message has a compression context of
            # its own - which still belongs to its direction)
            nct = cfg["nct"] = ch.flag("no-context-takeover-both-ways", 0.35)

            def s_accept(offers):
                for o in offers:
                    if isinstance(o, PerMessageDeflateOffer):
                        if nct:
                            return PerMessageDeflateOfferAccept(o, request_no_context_takeover=True, no_context_takeover=True)
                        return PerMessageDeflateOfferAccept(o)

            def c_accept(resp):
                return PerMessageDeflateResponseAccept(resp, no_context_takeover=True) if nct else PerMessageDeflateResponseAccept(resp)
            sopts["perMessageCompressionAccept"] = s_accept
            copts["perMessageCompressionOffers"] = [PerMessageDeflateOffer(request_no_context_takeover=nct)]
            copts["perMessageCompressionAccept"] = c_accept
        sfac.setProtocolOptions(**sopts)
        cfac.setProtocolOptions(**copts)
        self.sfac, self.cfac = sfac, cfac
        cfg["decoy"] = ch.flag("decoy-connection-first", 0.2)
        if cfg["decoy"]:
            # an earlier connection of the same factories that is cut in the middle of a streamed frame / a fragmented
            # or compressed message in both directions
            RecServer_, RecClient_ = RecServer, RecClient
            sfac.protocol, cfac.protocol = RecServer_, RecClient_
            k = 1 + ch.choose(60, "decoy-k")

            def script(dc, ds):
                for ep in (ds, dc):
                    ep.p.sendMessage(b"decoy-whole-message", True)
                    ep.p.beginMessage(True, doNotCompress=True)
                    ep.p.beginMessageFrame(100)
                    ep.p.sendMessageFrameData(b"d" * k)
            self.decoy_pair(cfac, sfac, script)
        c, s = self.build_pair(cfac, sfac)
        comp = cfg["deflate"]
        # (prepared messages are framed by the factory: always masked for clients, never for
        # servers, whatever maskClientFrames / maskServerFrames say - both are legal on the wire
        # for the peers configured here)
        c.monitor = SenderMonitor("must" if cfg["maskClient"] else "any", comp, DeflateCodec(15, bool(cfg.get("nct"))) if comp else None,
                                  cfg["applyMask"])
        s.monitor = SenderMonitor("any" if cfg["maskServer"] else "mustnot", comp, DeflateCodec(15, bool(cfg.get("nct"))) if comp else None,
                                  cfg["applyMask"])
        if protos:
            s.hooks["on_connect"] = lambda req: req.protocols[0] if req.protocols else None
        # workload plan per side
        self.bytes_budget = 400000
        for ep in (c, s):
            ep.sent = []  # expected deliveries at the peer: (payload, is_binary)
            ep.sent_pings = []
            ep.plan = self.make_plan(ep)
            ep.plan_pos = 0
            n_open = ch.low(3, "n-onopen") if ep.plan else 0
            ep.onopen_ops = n_open
            ep.hooks["on_open"] = lambda ep=ep: self.run_onopen(ep)
        self.run.log("cfg", sorted((k, repr(v)) for k, v in cfg.items()))
        self.start(s)
        self.start(c)

    def make_plan(self, ep):
        ch = self.run.ch
        n = ch.choose(9, "nmsgs", (1, 2, 3, 3, 2, 2, 1, 1, 1))
        frag = self.cfg["fragC"] if ep.name == "C" else self.cfg["fragS"]
        plan = []
        for i in range(n):
            api = ch.pick(("message", "frame", "stream", "prepared", "lowlevel", "ping"), "api", (6, 2, 2, 2, 1.5, 1))
            L = ch.pick(LENGTHS, "len", LENGTH_W)
            fs = None
            if api == "message" and ch.flag("explicit-frag", 0.3):
                fs = ch.pick((1, 2, 3, 125, 126, 127, 1000, 65535, 65536), "fragsize")
            eff = fs if fs is not None else (frag if api in ("message", "prepared") else 0)
            if eff and L // eff > 600:
                L = ch.pick((0, 1, 2, 3, 125, 126, 127, 128, 300), "len-small")
            if L > self.bytes_budget:
                L = 300
            self.bytes_budget -= L
            binary = ch.flag("binary")
            op = {"api": api, "len": L, "binary": binary, "fragsize": fs, "sync": ch.flag("sync", 0.12),
                  "dnc": ch.flag("doNotCompress", 0.2), "incompr": ch.flag("incompressible", 0.2),
                  "token": "%s%d" % (ep.name, i),
                  "interject": api in ("frame", "stream") and ch.flag("whole-message-before-first-frame", 0.2)}
            if api == "frame":
                op["cuts"] = [ch.choose(max(1, L + 1), "cut") for _ in range(ch.choose(4, "ncuts"))]
                # the frames of one message may be written over several scheduler steps: whatever happens on the connection
                # in between (deliveries in the other direction included) is none of the message's business
                op["slow"] = ch.flag("frame-api-spread-over-steps", 0.3)
            elif api == "stream":
                op["nframes"] = 1 + ch.choose(3, "nframes")
                op["chunk"] = ch.pick((1, 7, 64, 1000, 70000), "chunk")
                op["overrun"] = ch.flag("overrun", 0.3)
                op["rejected_call"] = ch.flag("rejected-api-call-mid-frame", 0.25)
                if L // op["chunk"] > 300:
                    op["len"] = L = 1 + ch.choose(300, "len-stream")
            elif api == "lowlevel":
                op["chop"] = ch.pick((1, 2, 3, 7, 100, 70000), "chop")
                if L // max(1, op["chop"]) > 300:
                    op["len"] = L = 200
            elif api == "ping":
                op["len"] = ch.pick((0, 1, 125), "pinglen")
            plan.append(op)
        return plan

    # --- workload execution -----------------------------------------------------------------------
    def run_onopen(self, ep):
        for _ in range(ep.onopen_ops):
            if ep.plan_pos < len(ep.plan):
                self.exec_op(ep)
                self.run.probe("send-in-onOpen")

    def extra_actions(self):
        acts = []
        for ep in self.eps:
            if getattr(ep, "inflight", None):
                if ep.p._st == 3:
                    acts.append((3.0, "app-next-frame:" + ep.name, lambda ep=ep: self.fw.call(self, self.continue_frames, ep, False)))
                continue
            if ep.plan_pos < len(ep.plan) and ep.p._st == 3 and any(e[0] == "onOpen" for e in ep.events):
                acts.append((3.0, "app:" + ep.name, lambda ep=ep: self.fw.call(self, self.exec_op, ep)))
        if self.mode == "cut" and not self.cut_done and self.run.steps > 2:
            acts.append((0.25, "cut", self.do_cut))
        return acts

    def do_cut(self):
        """Connection cut at the current offsets: RST seen by both ends, or FIN from one end."""
        self.cut_done = True
        which = self.run.ch.choose(4, "cutkind")
        if which == 3:
            self.inject_close_and_stray()
            return
        self.run.fault(("cut-rst-both", "cut-fin-from-client-side", "cut-fin-from-server-side")[which])
        if which == 0:
            self.c2s.reset()
            self.s2c.reset()
        elif which == 1:
            self.c2s.close_write()
        else:
            self.s2c.close_write()

    def inject_close_and_stray(self):
        """The conversation of one direction is ended from the outside: at a frame boundary of the sender's stream a close
        frame appears, followed by data frames - octets the peer application never sent (a middlebox ending the
        connection, a desynchronised proxy).  What follows a close frame is not part of the conversation: the receiver
        may close, but delivers none of it."""
        from sim.ref_ws import encode_frame
        ch = self.run.ch
        to_server = ch.flag("towards-server")
        snd, rcv, pipe = (self.client, self.server, self.c2s) if to_server else (self.server, self.client, self.s2c)
        if not (snd.http_done and rcv.p._st == 3 and not snd.monitor.incomplete() and not getattr(snd.t, "outbuf", b"")
                and not pipe.fin and not pipe.rst and not pipe.gone):
            self.cut_done = False  # (not at a frame boundary right now: try again later)
            return
        self.run.fault("stray-close-frame-then-data-injected")
        mask = b"\x11\x22\x33\x44" if to_server else None
        octets = encode_frame(8, b"\x03\xe8", mask=mask)
        for i in range(1 + ch.choose(2, "n-stray")):
            octets += encode_frame(2, b"stray-%d-after-close" % i, mask=mask)
        self.run.log("inject", pipe.name, len(octets))
        pipe.buf += octets

    def exec_op(self, ep):
        if getattr(ep, "inflight", None):
            # (several operations in a row, e.g. inside onOpen(): the application finishes the message it has open first)
            self.continue_frames(ep, True)
        op = ep.plan[ep.plan_pos]
        ep.plan_pos += 1
        p = ep.p
        api = op["api"]
        L = op["len"]
        binary = op["binary"]
        comp = self.cfg["deflate"]
        self.run.log("app", ep.name, api, L, binary, op.get("fragsize"), op["sync"])
        if api == "ping":
            payload = make_payload(op["token"], L, True)
            p.sendPing(payload)
            ep.sent_pings.append(payload)
            return
        payload = make_payload(op["token"], L, binary, op["incompr"])
        try:
            if api == "message":
                p.sendMessage(payload, binary, fragmentSize=op["fragsize"], sync=op["sync"], doNotCompress=op["dnc"])
            elif api == "frame":
                cuts = sorted(set(c for c in op["cuts"] if 0 < c < L))
                p.beginMessage(binary, doNotCompress=op["dnc"])
                self.interject(ep, op)
                prev = 0
                if op.get("slow") and cuts:
                    p.sendMessageFrame(payload[0:cuts[0]], sync=op["sync"])
                    ep.inflight = {"payload": payload, "points": cuts[1:] + [L], "prev": cuts[0], "sync": op["sync"]}
                    ep.sent.append((payload, binary))
                    self.run.probe("frame-api-message-left-open")
                    return
                for c in cuts + [L]:
                    p.sendMessageFrame(payload[prev:c], sync=op["sync"])
                    prev = c
                p.endMessage()
                self.run.probe("frame-api")
            elif api == "stream":
                # streaming API sends raw octets: only meaningful uncompressed
                p.beginMessage(binary, doNotCompress=True)
                self.interject(ep, op)
                nf = op["nframes"]
                bounds = [L * (i + 1) // nf for i in range(nf)]
                prev = 0
                for b in bounds:
                    flen = b - prev
                    p.beginMessageFrame(flen)
                    pos = prev
                    chunk = op["chunk"]
                    if flen == 0:
                        rest = p.sendMessageFrameData(b"")
                    while pos < b:
                        end = pos + chunk
                        if op["overrun"]:
                            data = payload[pos:end]  # may run past this frame's end
                        else:
                            data = payload[pos:min(end, b)]
                        rest = p.sendMessageFrameData(data, sync=op["sync"])
                        if op.get("rejected_call") and pos + len(data) < b:
                            # another producer sharing the connection starts a frame of its own while this one is only
                            # partly written: the library refuses that - and the refused call must leave no trace
                            op["rejected_call"] = False
                            # (endMessage() is not in the list: the library deliberately does not check its state)
                            for bad in (lambda: p.beginMessageFrame(flen + 7), lambda: p.beginMessage(True)):
                                try:
                                    bad()
                                    self.run.violate("C01.send-raises", "out-of-state-call-accepted", "inside a streamed frame")
                                except Exception:  # noqa
                                    self.run.probe("out-of-state-call-rejected")
                        if rest is not None and rest < 0:
                            # over-run: -rest octets were not consumed
                            pos = pos + len(data) + rest
                            self.run.probe("stream-overrun")
                        else:
                            pos += len(data)
                    prev = b
                p.endMessage()
                self.run.probe("stream-api")
            elif api == "prepared":
                fac = self.cfac if ep.name == "C" else self.sfac
                pm = fac.prepareMessage(payload, binary, doNotCompress=op["dnc"])
                p.sendPreparedMessage(pm)
                self.run.probe("prepared")
            elif api == "lowlevel":
                # a whole single-frame message through the chopped-write queue
                p.sendFrame(opcode=2 if binary else 1, payload=payload, chopsize=op["chop"], sync=op["sync"])
                self.run.probe("chopped-write")
        except Exception as e:  # noqa
            self.run.violate("C01.send-raises", "%s:%s" % (api, type(e).__name__), repr(e))
            return
        ep.sent.append((payload, binary))
        if op["sync"]:
            self.run.probe("synced-write")

    def continue_frames(self, ep, to_the_end):
        """the next frame (or all remaining ones) of a frame-API message that was left open, then endMessage()"""
        fl = ep.inflight
        try:
            while fl["points"]:
                c = fl["points"].pop(0)
                ep.p.sendMessageFrame(fl["payload"][fl["prev"]:c], sync=fl["sync"])
                fl["prev"] = c
                if not to_the_end:
                    break
            if not fl["points"]:
                ep.p.endMessage()
                ep.inflight = None
                self.run.probe("frame-api")
        except Exception as e:  # noqa
            ep.inflight = None
            if ep.p._st == 3:
                self.run.violate("C01.send-raises", "frame-continued:%s" % type(e).__name__, repr(e))

    def interject(self, ep, op):
        """A whole message sent after beginMessage() but before the first frame of the begun message (e.g. a reply
        issued from onMessage meanwhile): it precedes the begun message on the wire."""
        if not op.get("interject"):
            return
        small = make_payload(op["token"] + "i", 33, True)
        ep.p.sendMessage(small, True, doNotCompress=not op["dnc"])
        ep.sent.append((small, True))
        self.run.probe("whole-message-between-begin-and-first-frame")

    # --- oracles ---------------------------------------------------------------------------------------
    def received(self, ep):
        return [(e[1], e[2]) for e in ep.events if e[0] == "onMessage"]

    def check_step(self):
        self.check_escapes()
        run = self.run
        for snd, rcv in ((self.client, self.server), (self.server, self.client)):
            m = snd.monitor
            for suffix, sig, detail in m.errors:
                run.violate("C01.%s" % suffix, sig, "%s: %s" % (snd.name, detail))
            del m.errors[:]
            got = self.received(rcv)
            if len(got) > len(snd.sent) or got != snd.sent[:len(got)]:
                if not getattr(rcv, "_reported", False):
                    rcv._reported = True
                    self.report_mismatch(snd, rcv, got)
            # what the monitor reassembled from the sender's own octets
            wire = [(d, b) for d, b, _, _ in m.messages]
            if len(wire) > len(snd.sent) or wire != snd.sent[:len(wire)]:
                if not getattr(snd, "_wreported", False):
                    snd._wreported = True
                    k = first_diff(wire, snd.sent)
                    run.violate("C01.wire-carries-message", "sender-octets-differ:%s" % diff_kind(wire, snd.sent, k),
                                "%s message #%d on the wire differs from what was passed to the send API" % (snd.name, k))
            if len(m.masks) >= 6 and len(set(m.masks)) == 1:
                run.violate("C01.wire-wellformed", "constant-mask-key", snd.name)
                m.masks = []
            if len(m.masks) > 64:
                m.masks = m.masks[-8:]

    def report_mismatch(self, snd, rcv, got):
        k = first_diff(got, snd.sent)
        self.run.violate("C01.delivery", "%s" % diff_kind(got, snd.sent, k),
                         "%s->%s delivery #%d differs (got %d, sent %d)" % (snd.name, rcv.name, k, len(got), len(snd.sent)))

    def final(self):
        self.check_step()
        run = self.run
        clean = self.mode == "clean"
        for snd, rcv in ((self.client, self.server), (self.server, self.client)):
            got = self.received(rcv)
            if clean:
                if snd.plan_pos < len(snd.plan):
                    # plan not finished within the step cap: run the rest now and drain again
                    pass
                if got != snd.sent and not getattr(rcv, "_reported", False):
                    k = first_diff(got, snd.sent)
                    run.violate("C01.delivery", "missing-at-quiescence" if len(got) < len(snd.sent) else diff_kind(got, snd.sent, k),
                                "%s->%s got %d of %d messages" % (snd.name, rcv.name, len(got), len(snd.sent)))
                if snd.monitor.incomplete():
                    run.violate("C01.wire-wellformed", "unfinished-frame-at-quiescence", snd.name)
                pings = [e[1] for e in rcv.events if e[0] == "onPing"]
                if pings != snd.sent_pings:
                    run.violate("C01.delivery", "pings-differ", "%s->%s" % (snd.name, rcv.name))
                pongs = [e[1] for e in snd.events if e[0] == "onPong"]
                if pongs != snd.sent_pings:
                    run.violate("C01.delivery", "pongs-differ", "%s got pongs %d for %d pings" % (snd.name, len(pongs), len(snd.sent_pings)))
            if any(len(x[0]) >= 65536 for x in snd.sent):
                run.probe("64bit-length-message")
        if clean:
            for ep in self.eps:
                if ep.closed_cb is not None:
                    run.violate("C01.delivery", "connection-closed-in-clean-run", "%s %r" % (ep.name, ep.closed_cb))

    def drain(self):
        # finish the plans first (fault-free tail), then the generic drain
        guard = 0
        while guard < 40:
            guard += 1
            WsWorld.drain(self)
            if self.run.fatal:
                return
            open_msgs = [ep for ep in self.eps if getattr(ep, "inflight", None) and ep.p._st == 3]
            for ep in open_msgs:
                self.fw.call(self, self.continue_frames, ep, True)
            pending = [ep for ep in self.eps if ep.plan_pos < len(ep.plan) and ep.p._st == 3
                       and any(e[0] == "onOpen" for e in ep.events)]
            if not pending and not open_msgs:
                break
            for ep in pending:
                self.fw.call(self, self.exec_op, ep)
        WsWorld.drain(self)

    def nontrivial(self):
        return sum(len(self.received(ep)) for ep in self.eps) >= 1 and self.run.probes.get("split-delivery", 0) >= 1

    def sample(self):
        s = WsWorld.sample(self)
        s["plan"] = {ep.name: [{k: v for k, v in op.items() if k in ("api", "len", "binary", "fragsize", "sync")}
                               for op in ep.plan] for ep in self.eps}
        return s


def first_diff(a, b):
    for i, (x, y) in enumerate(zip(a, b)):
        if x != y:
            return i
    return min(len(a), len(b))


def diff_kind(got, sent, k):
    if k >= len(sent):
        return "extra-message"
    if k >= len(got):
        return "missing"
    g, s = got[k], sent[k]
    if g[1] != s[1]:
        return "type-flipped"
    if g[0] is None:
        return "undecodable"
    if k + 1 < len(sent) and g == sent[k + 1]:
        return "skipped-or-reordered"
    if k > 0 and g == sent[k - 1]:
        return "duplicate"
    if len(g[0]) != len(s[0]):
        return "length-differs"
    return "payload-differs"
