"""
C10 - every invocation gets exactly one terminal reply.

Full-stack world on all four transports: the callee is a real ApplicationSession on the real
client transport (WampWebSocketClientProtocol / WampRawSocketClientProtocol, Twisted or asyncio),
the other end of the simulated link is the library's real server transport of the same kind with a
scripted dealer as its session.  Endpoint behaviours are drawn per invocation; several invocations
are outstanding at once; the dealer sends INTERRUPT at any point.
"""

from sim.core import SetupViolation, HarnessError
from worlds.stack import StackWorld, StubSession, make_ser
from worlds.wamp import session_classes

from checks.c04 import ARGSETS, jsonish

PROP = "C10"
MAX_STEPS = 160

BEHAVIOURS = ("value", "none", "callresult", "unserializable", "oversized", "raise-app", "raise-mapped", "raise-unmapped",
              "raise-unserializable-args", "pending-ok", "pending-fail", "pending-forever", "progress-then-value",
              "coroutine-ok", "coroutine-fail", "pending-absorbs-cancel", "pending-cancel-raises-app", "at-limit", "unserializable-int")


class Unserializable:
    """An application object no WAMP serializer knows."""
    def __repr__(self):
        return "<Unserializable>"


class MappedError(Exception):
    pass


class Inv:
    pass


class World(StackWorld):
    PROP = PROP

    def __init__(self, run, mode=None):
        StackWorld.__init__(self, run)
        self.invs = {}  # request id -> Inv
        self.order = []
        self.next_req = 100  # (build() may lower it: INVOCATION ids from the range of the session's own request ids)
        self.regs = {}  # proc -> registration id
        self.ops_left = 0
        self.user_futs = []
        self.unreg_started = []

    def build(self):
        ch = self.run.ch
        self.make_reactor(0.0)
        fwamp = session_classes()
        from autobahn.wamp import message, role
        from autobahn.wamp.types import ComponentConfig
        self.M = message
        cfg = self.cfg = {"kind": ch.pick(("ws", "rs"), "kind"), "ser": ch.pick(("json", "cbor", "msgpack", "ubjson"), "ser")}
        kind = cfg["kind"]
        self.dealer = StubSession(self, "D")
        self.dealer.hooks["onMessage"] = self.dealer_on_message
        self.callee = fwamp.ApplicationSession(ComponentConfig(realm="realm1"))
        self.callee.define(MappedError, "com.example.mapped_error")
        copts = sopts = None
        self.limit = None
        if kind == "ws":
            self.limit = cfg["limit"] = ch.pick((0, 2000, 6000), "ws-limit")
            # (with a fragment size of 1 every reply is an exact multiple of it, with 7 or 64 some are)
            cfg["frag"] = ch.pick((0, 1, 7, 64), "autoFragmentSize", (3, 1, 1, 1))
            copts = {"maxMessagePayloadSize": self.limit, "autoFragmentSize": cfg["frag"]}
            sopts = {"maxMessagePayloadSize": self.limit, "autoFragmentSize": ch.pick((0, 1, 64), "autoFragmentSize-dealer", (3, 1, 1))}
            if not self.limit:
                self.limit = None
            # permessage-deflate on the WAMP-over-WebSocket transport (with context takeover, the default): a reply refused
            # for its size has been through the compressor already, and every later reply shares that context
            cfg["deflate"] = ch.flag("permessage-deflate", 0.35)
            if cfg["deflate"]:
                from autobahn.websocket.compress import PerMessageDeflateOffer, PerMessageDeflateOfferAccept, PerMessageDeflateResponseAccept
                copts["perMessageCompressionOffers"] = [PerMessageDeflateOffer()]
                copts["perMessageCompressionAccept"] = lambda resp: PerMessageDeflateResponseAccept(resp)
                sopts["perMessageCompressionAccept"] = lambda offers: PerMessageDeflateOfferAccept(offers[0]) if offers else None
                # (the size limit is judged on what goes onto the wire: the dealer's end gets no receive limit of its own, and
                # oversized results are incompressible and at least twice the limit)
                sopts["maxMessagePayloadSize"] = 0
        elif self.fwname == "tx":
            cfg["server_max"] = ch.pick((1024, 2048, 4096, 2 ** 24), "rs-server-max", (2, 2, 2, 1))
            sopts = {"maxMessagePayloadSize": cfg["server_max"]}
            self.limit = cfg["server_max"] if cfg["server_max"] < 2 ** 24 else None
        c, s = self.build_stack(kind, lambda: self.callee, lambda: self.dealer, [make_ser(cfg["ser"])], [make_ser(cfg["ser"])], copts, sopts)
        if kind == "rs" and self.fwname == "aio" and ch.flag("aio-rs-small-announce", 0.6):
            # labelled white-box knob: the asyncio RawSocket server has no option for the maximum it
            # announces (fixed 2^24); set the instance attributes its __init__ computes
            exp = ch.pick((1, 2, 3), "aio-rs-exp")
            s.p._length_exp = exp
            s.p.max_length = 2 ** (9 + exp)
            self.limit = cfg["server_max"] = 2 ** (9 + exp)
        self.start(s)
        self.start(c)
        self.pump_all()
        if self.callee._session_id is None:
            # the set-up phase injects no fault: a callee that cannot even join over this transport will not answer
            # any invocation on it
            self.check_escapes()
            self.run.violate("C10.every-transport", "session-could-not-join:%s/%s" % (kind, self.fwname),
                             "serializer %s, options %r: dealer saw %r" % (cfg["ser"], {k: v for k, v in cfg.items() if k not in ("kind", "ser")},
                                                                        [type(m).__name__ for m in self.dealer.msgs]), fatal=True)
            return
        # register the endpoints
        self.endpoints = {}
        from autobahn.wamp import types
        self.reg_watch = {}
        self.unregistered = set()
        for name, opts in (("plain", None), ("details", types.RegisterOptions(details_arg="details")),
                           ("pfx", types.RegisterOptions(match="prefix"))):
            proc = "com.example.%s" % name
            f = self.fw.call(self, self.callee.register, self.make_endpoint(name), proc, opts)
            self.reg_watch[name] = self.fw.watch(f)
        self.pump_all()
        if len(self.regs) != 3:
            raise SetupViolation("registration-did-not-complete:%s/%s" % (kind, self.fwname), repr(self.regs))
        if ch.flag("callee-is-a-caller-too", 0.2):
            self.own_calls_left = 1 + ch.choose(2, "own-calls")
            self.next_req = 2 + ch.choose(4, "first-invocation-id")
        self.ops_left = 2 + ch.choose(8, "ninv")
        self.run.log("cfg", sorted((k, repr(v)) for k, v in cfg.items()))
        self.base_msgs = len(self.dealer.msgs)

    # --- scripted dealer --------------------------------------------------------------------------------------------
    def dealer_on_message(self, msg):
        M = self.M
        from autobahn.wamp import role
        t = self.dealer._transport
        if isinstance(msg, M.Hello):
            roles = {"broker": role.RoleBrokerFeatures(), "dealer": role.RoleDealerFeatures(progressive_call_results=True, call_canceling=True)}
            t.send(M.Welcome(5150, roles, realm="realm1", authid="a", authrole="r", authmethod="anonymous"))
        elif isinstance(msg, M.Register):
            rid = 900 + len(self.regs)
            self.regs[msg.procedure] = rid
            t.send(M.Registered(msg.request, rid))
        elif isinstance(msg, M.Unregister):
            # the callee withdraws a procedure: invocations already in flight still get their one terminal reply
            for proc, rid in self.regs.items():
                if rid == msg.registration:
                    self.unregistered.add(proc)
            self.run.probe("unregistered-while-invocations-may-be-pending")
            t.send(M.Unregistered(msg.request))

    # --- endpoints ------------------------------------------------------------------------------------------------------
    def make_endpoint(self, name):
        world = self

        def endpoint(*args, **kwargs):
            details = kwargs.pop("details", None)
            # which invocation is this?  the first positional argument carries the token
            tok = args[0] if args else kwargs.get("tok")
            inv = world.by_token.get(tok)
            if inv is None:
                world.run.violate("C10.args-exact", "endpoint-called-with-unknown-token", repr(args)[:80])
                return None
            inv.calls += 1
            inv.seen = (tuple(jsonish(list(args))), jsonish(kwargs), details)
            world.run.log("endpoint", name, tok, inv.behaviour)
            return world.behave(inv, details)
        return endpoint

    by_token = None

    def behave(self, inv, details):
        from autobahn.wamp import types
        from autobahn.wamp.exception import ApplicationError
        b = inv.behaviour
        if b == "value":
            return inv.value
        if b == "none":
            return None
        if b == "callresult":
            return types.CallResult(*inv.cr_args, **inv.cr_kwargs)
        if b == "unserializable":
            return Unserializable()
        if b == "unserializable-int":
            # an ordinary Python value that this serializer cannot put on the wire (MsgPack: integers beyond 64 bits)
            return {"total": 2 ** 70}
        if b == "oversized":
            if self.cfg.get("deflate"):
                return _incompressible(2 * inv.big + 64, inv.id)
            return "O" * inv.big
        if b == "at-limit":
            return "L" * inv.fit
        if b == "raise-app":
            raise ApplicationError("com.example.app_error", "boom", 7, detail="d")
        if b == "raise-mapped":
            raise MappedError("mapped", 1)
        if b == "raise-unmapped":
            raise ValueError("unmapped %s" % inv.token)
        if b == "raise-unserializable-args":
            raise ApplicationError("com.example.app_error", Unserializable())
        if b in ("pending-ok", "pending-fail", "pending-forever"):
            f = self.fw.new_future(self)
            inv.user_future = f
            if b != "pending-forever":
                self.user_futs.append(inv)
            return f
        if b in ("coroutine-ok", "coroutine-fail", "pending-absorbs-cancel", "pending-cancel-raises-app"):
            return self.async_endpoint(inv, b)
        if b == "progress-then-value":
            if details is not None and details.progress is not None:
                for i in range(inv.nprogress):
                    details.progress("partial", i)
                    inv.progress_emitted += 1
            return inv.value
        raise HarnessError(b)

    def async_endpoint(self, inv, b):
        """Endpoints whose result goes through one more hop than a bare future: a coroutine awaiting the user's
        future (asyncio: a Task - its completion and the INVOCATION's continuation are separate loop iterations), or
        a future whose canceller / cancellation handler completes it with a value instead of failing."""
        world = self
        if self.fwname == "tx":
            from twisted.internet import defer
            if b == "pending-absorbs-cancel":
                f = defer.Deferred(canceller=lambda d: d.callback(inv.value))
                inv.user_future = f
                self.user_futs.append(inv)
                return f
            if b == "pending-cancel-raises-app":
                # a cancellation-aware endpoint: on INTERRUPT it fails with its own application error
                f = defer.Deferred(canceller=lambda d: d.errback(self.cancel_error()))
                inv.user_future = f
                self.user_futs.append(inv)
                return f
            f = self.fw.new_future(self)
            inv.user_future = f
            self.user_futs.append(inv)

            async def co():
                return await f
            return defer.ensureDeferred(co())
        import asyncio
        f = self.fw.new_future(self)
        inv.user_future = f
        self.user_futs.append(inv)

        async def co():
            if b == "pending-absorbs-cancel":
                try:
                    return await f
                except asyncio.CancelledError:
                    world.run.probe("endpoint-absorbed-cancellation")
                    return inv.value
            if b == "pending-cancel-raises-app":
                try:
                    return await f
                except asyncio.CancelledError:
                    raise world.cancel_error()
            return await f
        return co()

    def cancel_error(self):
        from autobahn.wamp.exception import ApplicationError
        self.run.probe("endpoint-turned-cancellation-into-application-error")
        return ApplicationError("com.example.cancelled", "rolled back", 3, stage="commit")

    # --- actions ---------------------------------------------------------------------------------------------------------------
    def extra_actions(self):
        acts = []
        if self.by_token is None:
            self.by_token = {}
        up = not self.client.t.is_gone() and not self.server.t.is_gone() and self.dealer._transport is not None
        if up and self.ops_left > 0:
            acts.append((3.0, "invoke", self.dealer_invoke))
        if up and self.user_futs:
            acts.append((2.5, "resolve-endpoint-future", self.resolve_user))
        if up and self.order and self.ops_left > 0:
            acts.append((1.5, "interrupt", self.dealer_interrupt))
        if up and self.order and len(self.unreg_started) < 2 and self.callee._session_id:
            acts.append((0.7, "unregister", self.app_unregister))
        if up and self.own_calls_left > 0 and self.callee._session_id:
            acts.append((0.8, "callee-calls-out-and-cancels", self.app_call_and_cancel))
        return acts

    own_calls_left = 0

    def app_call_and_cancel(self):
        """the callee session is a caller too: it issues a call of its own (never answered by the scripted dealer) and
        gives up on it.  Its request ids and the dealer's INVOCATION ids are different number spaces."""
        self.own_calls_left -= 1
        self.run.probe("callee-session-calls-out-and-cancels")
        try:
            f = self.fw.call(self, self.callee.call, "com.example.elsewhere", 1)
            w = self.fw.watch(f)
            self.fw.call(self, self.fw.cancel_future, f)
            self.own_call_watch = w
        except Exception as e:  # noqa
            self.run.log("own-call-raised", type(e).__name__)

    def app_unregister(self):
        ch = self.run.ch
        name = ch.pick([n for n in ("plain", "details", "pfx") if n not in self.unreg_started], "unregister-which")
        self.unreg_started.append(name)
        st = self.reg_watch[name].state()
        if st[0] != "ok":
            return
        self.run.log("app", "unregister", name)
        try:
            self.fw.call(self, st[1].unregister)
        except Exception as e:  # noqa
            self.run.log("unregister-raised", type(e).__name__)

    def dealer_invoke(self):
        ch = self.run.ch
        M = self.M
        self.ops_left -= 1
        inv = Inv()
        self.next_req += 1
        inv.id = self.next_req
        inv.token = "t%d" % inv.id
        inv.behaviour = ch.pick(BEHAVIOURS, "behaviour")
        if inv.behaviour == "oversized" and self.limit is None:
            inv.behaviour = "value"
        if inv.behaviour == "unserializable-int" and self.cfg["ser"] != "msgpack":
            inv.behaviour = "value"
        if inv.behaviour == "at-limit":
            # a result whose YIELD is exactly as large as the transport allows: still a result
            inv.fit = self.fit_result_to_limit(inv.id)
            if inv.fit is None:
                inv.behaviour = "value"
            else:
                self.run.probe("result-exactly-at-the-size-limit")
        inv.proc = ch.pick(("plain", "details", "pfx"), "proc", (3, 3, 2))
        if "com.example." + inv.proc in self.unregistered:
            left = [n for n in ("plain", "details", "pfx") if "com.example." + n not in self.unregistered]
            if not left:
                self.ops_left += 1
                return  # nothing left to invoke
            inv.proc = left[0]
        # pattern-based registration: the INVOCATION names the URI that was actually called - possibly a long one
        inv.called_uri = None
        if inv.proc == "pfx":
            inv.called_uri = "com.example.pfx." + "u" * ch.pick((3, 300, 900), "called-uri-len")
        inv.receive_progress = ch.flag("receive_progress", 0.4)
        a, k = ch.pick(ARGSETS, "args")
        inv.args = [inv.token] + list(a)
        inv.kwargs = dict(k)
        inv.value = ch.pick((1, "s", [1, {"a": None}], {"k": [1, 2]}, 2.5, True), "value")
        inv.cr_args = ch.pick(((), (1,), (1, "two")), "cr-args")
        inv.cr_kwargs = ch.pick(({}, {"x": 1}), "cr-kwargs")
        inv.big = (self.limit or 1000) + ch.pick((1, 200, 5000), "big")
        inv.nprogress = 1 + ch.choose(3, "nprogress")
        inv.progress_emitted = 0
        inv.calls = 0
        inv.seen = None
        inv.user_future = None
        inv.interrupted_while_pending = False
        inv.interrupts = 0
        inv.caller = 4000 + inv.id
        self.invs[inv.id] = inv
        self.order.append(inv)
        self.by_token[inv.token] = inv
        msg = M.Invocation(inv.id, self.regs["com.example." + inv.proc], args=inv.args, kwargs=inv.kwargs or None,
                           receive_progress=inv.receive_progress or None, caller=inv.caller, caller_authid="cid", caller_authrole="crole",
                           procedure=inv.called_uri)
        self.run.log("dealer", "INVOCATION", inv.id, inv.behaviour, inv.proc, inv.receive_progress)
        self.dealer_send(msg)

    def dealer_send(self, msg):
        try:
            self.fw.call(self, self.dealer._transport.send, msg)
        except Exception as e:  # noqa
            raise HarnessError("dealer could not send %s: %r" % (type(msg).__name__, e))

    def dealer_interrupt(self):
        ch = self.run.ch
        M = self.M
        self.ops_left -= 1
        inv = ch.pick(self.order, "which")
        inv.interrupts += 1
        self.run.fault("interrupt")
        mode = ch.pick((None, M.Interrupt.KILL, M.Interrupt.KILLNOWAIT), "interrupt-mode")
        self.run.log("dealer", "INTERRUPT", inv.id, mode)
        self.run.probe("interrupt-mode:%s" % mode)
        self.dealer_send(M.Interrupt(inv.id, mode=mode))

    def resolve_user(self):
        ch = self.run.ch
        inv = self.user_futs.pop(ch.choose(len(self.user_futs), "which-future"))
        if inv.behaviour in ("pending-ok", "coroutine-ok", "pending-absorbs-cancel", "pending-cancel-raises-app"):
            self.fw.call(self, self.fw.resolve_future, inv.user_future, inv.value)
        else:
            self.fw.call(self, self.fw.reject_future, inv.user_future, RuntimeError("late failure %s" % inv.token))
        inv.resolved = True
        self.run.probe("endpoint-future-resolved-late")

    # --- oracle -------------------------------------------------------------------------------------------------------------------
    def replies(self, inv):
        M = self.M
        out = []
        for m in self.dealer.msgs[self.base_msgs:]:
            if isinstance(m, M.Yield) and m.request == inv.id:
                out.append(("progress" if m.progress else "yield", m))
            elif isinstance(m, M.Error) and m.request == inv.id:
                out.append(("error", m))
        return out

    def on_escape(self, ep, where, exc):
        from worlds.ws import exc_site
        self.escaped_any = True
        self.run.log("escape", where, type(exc).__name__, exc_site(exc))
        self.run.probe("escaped:%s:%s" % (type(exc).__name__, exc_site(exc)))
        self.last_escape = "%s:%s" % (type(exc).__name__, exc_site(exc))

    def check_step(self):
        self.check_escapes()
        run = self.run
        for inv in self.order:
            if getattr(inv, "_bad", False):
                continue
            reps = self.replies(inv)
            terms = [r for r in reps if r[0] != "progress"]
            if len(terms) > 1:
                inv._bad = True
                run.violate("C10.one-terminal", "terminal-replies:%d:%s" % (len(terms), inv.behaviour), "invocation %d" % inv.id)
            # progress only before the terminal reply and only when asked for
            seen_term = False
            for kind, m in reps:
                if kind == "progress":
                    if seen_term:
                        inv._bad = True
                        run.violate("C10.progress-before", "progress-after-terminal", "invocation %d" % inv.id)
                    if not inv.receive_progress:
                        inv._bad = True
                        run.violate("C10.progress-before", "progress-not-requested", "invocation %d" % inv.id)
                else:
                    seen_term = True
            if inv.calls > 1:
                inv._bad = True
                run.violate("C10.args-exact", "endpoint-invoked-x%d" % inv.calls, "invocation %d" % inv.id)

    def drain(self):
        # resolve what is still pending (except 'pending-forever'), deliver everything
        guard = 0
        while guard < 40:
            guard += 1
            StackWorld.drain(self)
            if self.user_futs and not self.client.t.is_gone():
                self.resolve_user()
                continue
            break
        StackWorld.drain(self)

    def final(self):
        self.check_step()
        run = self.run
        up = not self.client.t.is_gone() and not self.server.t.is_gone()
        kind = self.cfg["kind"]
        if not up and self.order:
            # this world injects no transport fault, the dealer sends only valid traffic within the limits: a transport that
            # is gone was brought down by the traffic itself - and with it every reply that was still due
            sess_closes = [(s.name, ev[1:]) for s in (self.dealer,) for ev in s.events if ev[0] == "onClose"]
            run.violate("C10.every-transport", "transport-went-down-without-a-fault:%s/%s" % (kind, self.fwname),
                        "client gone %s, server gone %s, dealer %r, last escaped exception: %s" % (
                            self.client.t.is_gone(), self.server.t.is_gone(), sess_closes, getattr(self, "last_escape", None)))
        for inv in self.order:
            if getattr(inv, "_bad", False):
                continue
            reps = self.replies(inv)
            terms = [r for r in reps if r[0] != "progress"]
            b = inv.behaviour
            sig_tp = "%s/%s" % (kind, self.fwname)
            if not up:
                continue  # nothing is asserted after transport loss
            if inv.seen is None:
                run.violate("C10.args-exact", "endpoint-never-invoked", "invocation %d" % inv.id)
                continue
            a, k, details = inv.seen
            if a != tuple(jsonish(inv.args)) or k != jsonish(inv.kwargs):
                run.violate("C10.args-exact", "arguments-differ", "invocation %d: %r %r vs %r %r" % (inv.id, a, k, inv.args, inv.kwargs))
            if inv.proc == "details":
                if details is None or details.caller != inv.caller or details.caller_authid != "cid" or details.procedure != "com.example.details" \
                        or (details.progress is not None) != bool(inv.receive_progress):
                    run.violate("C10.args-exact", "call-details-wrong", "invocation %d" % inv.id)
            elif details is not None:
                run.violate("C10.args-exact", "details-not-requested", "")
            if b == "pending-forever" and not inv.interrupts:
                if terms:
                    run.violate("C10.one-terminal", "reply-for-pending-endpoint", "invocation %d" % inv.id)
                continue
            if len(terms) != 1:
                if b == "pending-forever":
                    # interrupted while pending: an ERROR is due
                    run.violate("C10.one-terminal", "no-reply-after-interrupt:%s" % sig_tp, "invocation %d" % inv.id)
                else:
                    run.violate("C10.one-terminal", "no-terminal-reply:%s:%s" % (b, sig_tp),
                                "invocation %d, last escaped exception: %s" % (inv.id, getattr(self, "last_escape", None)))
                continue
            tkind, m = terms[0]
            must_error = b in ("unserializable", "unserializable-int", "oversized", "raise-app", "raise-mapped", "raise-unmapped", "raise-unserializable-args",
                               "pending-fail", "coroutine-fail")
            may_error = inv.interrupts > 0 and b in ("pending-ok", "pending-fail", "pending-forever", "coroutine-ok", "coroutine-fail",
                                                     "pending-absorbs-cancel", "pending-cancel-raises-app") or \
                (inv.interrupts > 0 and self.fwname == "aio")  # asyncio: the continuation runs one iteration later
            if tkind == "error" and inv.interrupts:
                run.probe("interrupted-invocation-ended-in-error")
            elif inv.interrupts:
                run.probe("interrupted-invocation-ended-in-yield:%s" % b)
            if must_error and tkind != "error":
                run.violate("C10.error-when-due", "yield-instead-of-error:%s" % b, "invocation %d" % inv.id)
            elif not must_error and tkind == "error":
                # an interrupted endpoint may end in the cancellation error (runtime_error without arguments); any
                # other ERROR for an endpoint that returned a value is wrong
                cancellation = m.error == "wamp.error.runtime_error" and not m.args and not m.kwargs
                if b == "pending-cancel-raises-app" and m.error == "com.example.cancelled":
                    # the endpoint's own error for the cancellation: it must arrive complete
                    cancellation = inv.interrupts > 0
                    if jsonish(list(m.args or [])) != ["rolled back", 3] or jsonish(m.kwargs or {}) != {"stage": "commit"}:
                        run.violate("C10.error-when-due", "app-error-content-differs:after-interrupt", repr(m.marshal())[:200])
                if not may_error or not cancellation:
                    run.violate("C10.error-when-due", "error-instead-of-yield:%s:%s" % (b, m.error), "invocation %d: %r %r" % (inv.id, m.args, m.kwargs))
            if tkind == "yield":
                exp_a, exp_k = self.expected_yield(inv)
                got_a = jsonish(list(m.args or []))
                got_k = jsonish(m.kwargs or {})
                if got_a != exp_a or got_k != exp_k:
                    run.violate("C10.one-terminal", "yield-value-differs:%s" % b, "invocation %d: %r %r vs %r %r" % (inv.id, got_a, got_k, exp_a, exp_k))
            else:
                if m.request_type != 68:
                    run.violate("C10.one-terminal", "error-request-type-%s" % m.request_type, "")
                if b == "raise-app" and (m.error != "com.example.app_error" or jsonish(list(m.args or [])) != ["boom", 7] or jsonish(m.kwargs or {}) != {"detail": "d"}):
                    run.violate("C10.error-when-due", "app-error-content-differs", repr(m.marshal())[:200])
                if b == "raise-mapped" and m.error != "com.example.mapped_error":
                    run.violate("C10.error-when-due", "mapped-error-uri:%s" % m.error, "")
                if b == "raise-unmapped" and m.error != "wamp.error.runtime_error":
                    run.violate("C10.error-when-due", "unmapped-error-uri:%s" % m.error, "")
            if b == "progress-then-value" and inv.receive_progress and inv.proc == "details":
                nprog = len([r for r in reps if r[0] == "progress"])
                if nprog != inv.nprogress:
                    run.violate("C10.progress-before", "progress-count-%d-of-%d" % (nprog, inv.nprogress), "")
                else:
                    run.probe("progressive-yields")
        run.probe("transport-up" if up else "transport-down")

    def fit_result_to_limit(self, request):
        """length of a string result whose YIELD serializes to exactly the transport's size limit (None: no limit, or no
        string length hits it exactly with this serializer)"""
        if self.limit is None:
            return None
        from autobahn.wamp import message
        ser = make_ser(self.cfg["ser"])
        n = self.limit - 16
        for _ in range(12):
            if n < 1:
                return None
            size = len(ser.serialize(message.Yield(request, args=["L" * n]))[0])
            if size == self.limit:
                return n
            n += self.limit - size
        return None

    def expected_yield(self, inv):
        b = inv.behaviour
        if b == "at-limit":
            return ["L" * inv.fit], {}
        if b in ("value", "pending-ok", "progress-then-value", "coroutine-ok", "pending-absorbs-cancel", "pending-cancel-raises-app"):
            return [jsonish(inv.value)], {}
        if b == "none":
            return [None], {}
        if b == "callresult":
            return jsonish(list(inv.cr_args)), jsonish(inv.cr_kwargs)
        return None, None

    def nontrivial(self):
        return len(self.order) >= 1

    def sample(self):
        return {"config": {k: repr(v) for k, v in self.cfg.items()},
                "invocations": [{"id": i.id, "behaviour": i.behaviour, "proc": i.proc, "interrupts": i.interrupts,
                                 "replies": [r[0] for r in self.replies(i)]} for i in self.order][:12]}


def _incompressible(n, salt):
    """n characters of text that deflate cannot shrink much (base64 of a hash chain)"""
    import base64
    import hashlib
    out = []
    h = hashlib.sha256(b"c10-%d" % salt).digest()
    size = 0
    while size < n:
        h = hashlib.sha256(h).digest()
        piece = base64.b64encode(h).decode("ascii").rstrip("=")
        out.append(piece)
        size += len(piece)
    return "".join(out)[:n]
