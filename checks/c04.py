"""
C04 - each WAMP request completes exactly once with its own reply.

Session world: real ApplicationSession on a simulated transport (real serializer round trip both
ways), stub router that holds every request and may answer any outstanding one at any time -
success, error, progressive results - and, adversarially, duplicates, unknown ids and replies of
the wrong type; EVENTs and INVOCATIONs interleave.  Reference model: id -> (kind, token, state).
"""

from worlds.wamp import SERIALIZERS, SessionWorld, StubTransport, session_classes

from sim.core import SetupViolation

PROP = "C04"
MAX_STEPS = 90
MODES = ["clean", "clean", "cut"]

MAXID = 9007199254740992

ARGSETS = [((), {}), ((1,), {}), (("a", 2, [3, {"x": None}]), {}), ((), {"k": "v"}), ((7, "s"), {"a": 1, "b": [True, 2.5]}),
           ((None,), {}), (([],), {}), (({"nested": {"deep": [1, 2, 3]}},), {"u": "é€"})]
KINDS = ("call", "publish", "subscribe", "register", "unsubscribe", "unregister", "cancel")


def jsonish(x):
    if isinstance(x, tuple):
        return [jsonish(i) for i in x]
    if isinstance(x, list):
        return [jsonish(i) for i in x]
    if isinstance(x, dict):
        return {k: jsonish(v) for k, v in x.items()}
    return x


class StrictErr(Exception):
    """An application exception class registered for an error URI; its constructor takes exactly one argument."""

    def __init__(self, only):
        Exception.__init__(self, only)


class Req:
    pass


class World(SessionWorld):
    PROP = PROP

    def __init__(self, run, mode="clean"):
        SessionWorld.__init__(self, run)
        self.mode = mode
        self.reqs = {}  # id -> Req
        self.goodbye_in_progress = False
        self.kept_call_options = {}  # option kind -> (CallOptions object the application keeps, holder naming the call it is used for now)
        self.order = []
        self.subs = []  # live Subscription objects (model side: (sub, sub_id, token))
        self.regs = []
        self.sub_ids = {}  # topic -> subscription id at the router
        self.next_router_id = 5000
        self.ops_left = 0
        self.lost = False
        self.violated_session = False
        self.pending_close = False
        self.replies_sent = []  # legal replies already delivered (for duplicates)
        self.handler_calls = []

    # --- build --------------------------------------------------------------------------------------
    def build(self):
        ch = self.run.ch
        self.make_reactor()
        fwamp = session_classes()
        from autobahn.wamp import message, role
        from autobahn.wamp.types import ComponentConfig
        self.M = message
        self.cfg = {"serializer": ch.pick(SERIALIZERS, "serializer"), "near_wrap": ch.flag("id-near-wrap", 0.15)}
        self.t = StubTransport(self, self.cfg["serializer"])
        self.session = fwamp.ApplicationSession(ComponentConfig(realm="realm1"))
        self.run.log("cfg", sorted(self.cfg.items()), self.mode)
        self.call(self.session.onOpen, self.t)
        self.settle()
        if not self.t.sent or not isinstance(self.t.sent[0], message.Hello):
            raise SetupViolation("no-HELLO-sent-on-open", repr(self.t.sent)[:200])
        roles = {"broker": role.RoleBrokerFeatures(), "dealer": role.RoleDealerFeatures(progressive_call_results=True, call_canceling=True)}
        self.sent_base = len(self.t.sent)
        self.prev_id = 0
        self.tok = 0
        if self.cfg["near_wrap"]:
            # labelled white-box knob: start the id generator just below 2**53 to cross the wrap
            k = ch.choose(4, "wrap-distance")
            self.session._request_id_gen._next = MAXID - k
            self.prev_id = MAXID - k
            self.run.probe("id-near-wrap")
        # a 'join' listener (session.on('join', ...), what Component's decorators use) may issue the session's first
        # request while the join is still being processed: ids go on from there
        self.cfg["join_listener"] = ch.flag("join-listener-issues-a-request", 0.25)
        if self.cfg["join_listener"]:
            def on_join_listener(*a, **k):
                self.run.probe("request-issued-by-a-join-listener")
                self.nested_call(None, sync_progress=False)
            self.session.on("join", on_join_listener)
        err = self.deliver(message.Welcome(77001, roles, realm="realm1", authid="anon", authrole="user", authmethod="anonymous"))
        self.settle()
        if err is not None or self.session._session_id != 77001:
            raise SetupViolation("session-did-not-join-on-WELCOME", repr(err)[:200])
        self.ops_left = 3 + ch.choose(12, "nops")
        if ch.flag("router-assigns-small-ids", 0.25):
            # registration / subscription / publication ids from the same small range as the session's request ids:
            # different number spaces, equal numbers mean nothing
            self.next_router_id = ch.choose(5, "first-router-id")
            self.cfg["small_ids"] = True
        if ch.flag("registers-a-decorated-object-first", 0.2):
            self.register_object()
        # the application maps an error URI to an exception class of its own; whether a given ERROR fits its constructor
        # is not in the application's hands - the request completes with the error either way
        self.cfg["defines"] = ch.flag("session-defines-an-exception-class", 0.35)
        if self.cfg["defines"]:
            self.session.define(StrictErr, "com.example.error.strict")

    def register_object(self):
        """register(obj[, options]): one REGISTER per decorated method, in the order of the method names, each with the
        options its decorator gave or else the options passed to register() - and the result is the list of registrations"""
        from autobahn import wamp
        from autobahn.wamp import types
        ch = self.run.ch
        M = self.M
        variants = {"none": (None, {}), "rr": (types.RegisterOptions(invoke="roundrobin"), {"invoke": "roundrobin"}),
                    "pfx": (types.RegisterOptions(match="prefix", concurrency=2), {"match": "prefix", "concurrency": 2})}
        picks = [ch.pick(("none", "rr", "pfx"), "decorator-options:%d" % i) for i in range(3)]
        default = ch.pick(("none", "rr", "pfx"), "register()-options")

        class Obj:
            @wamp.register("com.example.obj.alpha", options=variants[picks[0]][0])
            def alpha(self, *a, **k):
                return 1

            @wamp.register("com.example.obj.beta", options=variants[picks[1]][0])
            def beta(self, *a, **k):
                return 2

            @wamp.register("com.example.obj.gamma", options=variants[picks[2]][0])
            def gamma(self, *a, **k):
                return 3
        obj = Obj()
        n0 = len(self.t.sent)
        first = self.next_id()
        self.run.probe("decorated-object-registered")
        self.run.log("app", "register(obj)", picks, default)
        try:
            fut = self.call(self.session.register, obj, None, variants[default][0])
        except Exception as e:  # noqa
            self.run.violate("C04.one-request", "api-raised:register-object:%s" % type(e).__name__, repr(e))
            return
        w = self.fw.watch(fut)
        self.settle()
        new = self.t.sent[n0:]
        want = []
        rid = first
        for name, pk in zip(("alpha", "beta", "gamma"), picks):
            wire = variants[pk][1] if pk != "none" else variants[default][1]
            want.append([64, rid, wire, "com.example.obj.%s" % name])
            rid = 1 if rid >= MAXID else rid + 1
        got = [jsonish(m.marshal()) for m in new]
        if got != jsonish(want):
            what = "request-id" if [g[1] for g in got if len(g) > 1] != [x[1] for x in want] else "content"
            self.run.violate("C04.one-request", "wrong-%s:register-object" % what, "sent %r expected %r" % (got, want))
            self.violated = True
            return
        self.prev_id = want[-1][1]
        for i, x in enumerate(want):
            exc = self.deliver(M.Registered(x[1], 880000 + i))
            if exc is not None:
                self.run.violate("C04.own-reply", "legal-reply-raised:Registered:%s" % type(exc).__name__, repr(exc))
        self.settle()
        st = w.state()
        ok = st[0] == "ok" and [getattr(r_, "id", None) for r_ in st[1]] == [880000, 880001, 880002] and \
            [getattr(r_, "procedure", None) for r_ in st[1]] == [x[3] for x in want]
        if not ok:
            self.run.violate("C04.own-reply", "register-object-result", repr(st)[:200])
        self.sent_base = len(self.t.sent)

    sync_reply_for = None
    pending_alloc = None
    reply_inside_send = False
    claimed = None

    def on_send_attempt(self, msg):
        # the library draws the request id before it calls send(): from here on the id is taken
        if self.pending_alloc is not None:
            self.prev_id = self.pending_alloc
            self.pending_alloc = None
        if self.fail_this_send in ("with-nested-request", "plain"):
            # this send() is going to fail (serialization / size limit).  Something observing the failure - a log
            # observer, an error hook - may issue a request of its own before the exception reaches the caller.
            mode = self.fail_this_send
            self.fail_this_send = "nested-running"
            if mode == "with-nested-request":
                self.nested_call(None, sync_progress=False)
            self.fail_this_send = "armed"

    fail_this_send = None

    def injected_send_failure(self, msg):
        if self.fail_this_send == "armed":
            self.fail_this_send = None
            from autobahn.exception import Disconnected, PayloadExceededError
            from autobahn.wamp.exception import SerializationError, TransportLost
            kind = self.run.ch.pick(("serialization", "payload-exceeded", "disconnected", "transport-lost"), "send-failure-kind")
            self.run.fault("transport-send-fails:" + kind)
            self.failed_ids.append(getattr(msg, "request", None))
            return {"serialization": SerializationError("injected: cannot serialize %s" % type(msg).__name__),
                    "payload-exceeded": PayloadExceededError("injected: %s exceeds the transport limit" % type(msg).__name__),
                    "disconnected": Disconnected("injected: attempt to send on a closing protocol"),
                    "transport-lost": TransportLost("injected: transport gone")}[kind]
        return None

    failed_ids = ()

    def on_sent(self, msg):
        if self.reply_inside_send:
            # the transport answers an EARLIER pending request from inside this send() (in-process routers do);
            # the application's callback on that request may in turn issue a new request - all before send() returns
            self.reply_inside_send = False
            pend = [r for r in self.order if r.id is not None and not r.answered and r.kind != "cancel" and r.id != getattr(msg, "request", None)]
            if pend and self.t.attached and self.t.closing is None and not self.violated_session:
                self.run.probe("earlier-request-answered-inside-send")
                self.router_reply(exclude=getattr(msg, "request", None))
        # a transport may answer from inside send() (in-process routers do): the session's onMessage() is then
        # re-entered while the application is still inside a handler
        r2 = self.sync_reply_for
        if r2 is not None and isinstance(msg, self.M.Call) and msg.procedure == r2.uri:
            self.sync_reply_for = None
            r2.progress_exp.append(("plain", ("nested-chunk", r2.token), {}))
            self.run.probe("progressive-result-delivered-inside-send")
            exc = self.deliver(self.M.Result(msg.request, args=["nested-chunk", r2.token], progress=True))
            if exc is not None:
                self.run.violate("C04.own-reply", "legal-reply-raised:Result:%s" % type(exc).__name__, "re-entrant progressive result: %r" % (exc,))

    def chained_call(self, parent):
        """issued from inside the completion callback of `parent`"""
        self.run.probe("call-issued-inside-completion-callback")
        self.nested_call(parent, sync_progress=False)

    def nested_call(self, parent, sync_progress=True):
        """issued from inside parent's progress handler; the router answers it with a progressive result from inside send()"""
        from autobahn.wamp import types
        S = self.session
        r2 = Req()
        r2.kind, r2.token, r2.state, r2.answered, r2.progress_got, r2.progress_exp, r2.replies, r2.cancelled = \
            "call", self.new_token("call"), "pending", False, [], [], [], False
        r2.expect = None
        r2.args, r2.kwargs = (r2.token,), {}
        r2.uri = "com.example.nested.%s" % r2.token
        r2.opts = {"opt": "progress"}
        expect_id = self.next_id()
        n0 = len(self.t.sent)
        self.run.log("app", "nested-call", r2.token, "inside a handler of", parent.token if parent is not None else "a failing send() / a listener")
        if sync_progress:
            self.run.probe("call-issued-inside-progress-handler")
            self.sync_reply_for = r2
        saved = self.pending_alloc
        self.pending_alloc = expect_id
        try:
            fut = S.call(r2.uri, r2.token, options=types.CallOptions(on_progress=self.make_progress(r2)))
        except Exception as e:  # noqa
            self.run.violate("C04.one-request", "api-raised:call:%s" % type(e).__name__, "nested: %r" % (e,))
            return
        finally:
            self.sync_reply_for = None
            self.pending_alloc = saved
        r2.fut = fut
        r2.w = self.fw.watch(fut)
        self.verify_request(r2, "call", n0, [48, expect_id, {"receive_progress": True}, r2.uri, [r2.token]], expect_id, fut)
        if self.claimed is None:
            self.claimed = set()
        for m in self.t.sent[n0:]:
            if isinstance(m, self.M.Call) and m.procedure == r2.uri:
                self.claimed.add(id(m))

    # --- actions -----------------------------------------------------------------------------------------
    def actions(self):
        acts = self.base_actions()
        if self.t.attached and not self.violated_session:
            if self.ops_left > 0 and self.t.closing is None:
                acts.append((3.0, "app", self.app_op))
            if self.t.closing is None:
                pend = [r for r in self.reqs.values() if not r.answered and r.kind != "cancel"]
                if pend:
                    acts.append((4.0, "reply", self.router_reply))
                if self.ops_left > 0:
                    acts.append((0.8, "adversarial", self.router_adversarial))
                if pend and self.mode == "cut" and self.session._session_id and not self.goodbye_in_progress:
                    acts.append((0.3, "router-goodbye", self.router_goodbye))
                if self.subs or self.regs:
                    acts.append((0.8, "event-or-invocation", self.router_push))
            if self.mode == "cut" and self.run.steps > 1:
                acts.append((0.3, "cut", self.cut))
        if self.t.attached and (self.t.closing is not None or self.violated_session):
            acts.append((3.0, "transport-closed", self.cut))
        return acts

    def router_goodbye(self):
        """the router ends the session while requests are pending: they fail with the close reason - and whatever the
        application issues from inside those failures (a retry, a fallback) still completes exactly once, at the latest
        when the transport goes"""
        self.run.fault("router-goodbye-with-requests-pending")
        self.lost = True  # (from here on what is pending ends in an error, not in its reply)
        self.goodbye_in_progress = True
        exc = self.deliver(self.M.Goodbye("wamp.close.system_shutdown", "the realm is being shut down"))
        self.settle()
        if exc is not None:
            from worlds.ws import exc_site
            self.run.violate("C04.completes-once", "goodbye-raised:%s:%s" % (type(exc).__name__, exc_site(exc)), repr(exc))

    def cut(self):
        self.run.fault("transport-lost")
        self.lost = True
        self.transport_lost(False)
        self.settle()

    def new_token(self, kind):
        self.tok += 1
        return "%s%d" % (kind[0], self.tok)

    def next_id(self):
        return 1 if self.prev_id >= MAXID else self.prev_id + 1

    def app_op(self):
        res = self.call(self._app_op)
        self.settle()   # (asyncio: a cancel() reaches the canceller one loop iteration later)
        if res is not None:
            self.verify_request(*res)

    def _app_op(self):
        ch = self.run.ch
        from autobahn.wamp import types
        self.ops_left -= 1
        S = self.session
        kinds = ["call", "publish", "subscribe", "register"]
        w = [5, 3, 3, 2]
        if self.subs:
            kinds.append("unsubscribe")
            w.append(2)
        if self.regs:
            kinds.append("unregister")
            w.append(1.5)
        if any(r.kind == "call" and r.state == "pending" and not r.cancelled for r in self.reqs.values()):
            kinds.append("cancel")
            w.append(1)
        kind = ch.pick(kinds, "kind", w)
        n0 = len(self.t.sent)
        r = Req()
        r.kind, r.token, r.state, r.answered, r.progress_got, r.progress_exp, r.replies, r.cancelled = kind, self.new_token(kind), "pending", False, [], [], [], False
        r.expect = None
        args, kwargs = ch.pick(ARGSETS, "args")
        r.args, r.kwargs = args, dict(kwargs)
        expect_id = self.next_id()
        exp_marshal = None
        fut = None
        self.run.log("app", kind, r.token)
        self.pending_alloc = expect_id if kind != "cancel" else None
        self.reply_inside_send = kind != "cancel" and ch.flag("reply-to-earlier-request-inside-send", 0.12)
        send_fails = kind in ("call", "publish", "subscribe", "register") and ch.flag("transport-send-fails", 0.07)
        if send_fails:
            self.failed_ids = list(self.failed_ids)
            self.reply_inside_send = False
            self.fail_this_send = "with-nested-request" if ch.flag("request-issued-while-send-fails", 0.6) else "plain"
            self.t.send_fail = self.injected_send_failure
        try:
            if kind == "call":
                r.uri = "com.example.proc.%s" % r.token
                opt = ch.pick(("none", "details", "progress", "timeout", "progress+details"), "callopt", (4, 2, 2, 1, 1))
                wire = {}
                o = None
                kept = self.kept_call_options.get(opt)
                if opt != "none" and kept is not None and kept[1].r.state != "pending" and ch.flag("same-options-object-again", 0.5):
                    # the application keeps one CallOptions object and passes it to call after call (the earlier call
                    # that used it is over - with a result or with an error)
                    o, holder = kept
                    holder.r = r
                    if "progress" in opt:
                        wire["receive_progress"] = True
                    if opt == "timeout":
                        wire["timeout"] = 12
                    self.run.probe("options-object-used-again")
                elif opt != "none":
                    kw = {}
                    holder = Req()
                    holder.r = r
                    if "details" in opt:
                        kw["details"] = True
                    if "progress" in opt:
                        kw["on_progress"] = self.make_progress(holder)
                        wire["receive_progress"] = True
                        r.reentrant = ch.flag("call-inside-progress-handler", 0.3)
                    if opt == "timeout":
                        kw["timeout"] = 12
                        wire["timeout"] = 12
                    o = types.CallOptions(**kw)
                    self.kept_call_options[opt] = (o, holder)
                r.opts = {"opt": opt}
                if o is not None:
                    fut = S.call(r.uri, *args, options=o, **kwargs)
                else:
                    fut = S.call(r.uri, *args, **kwargs)
                exp_marshal = [48, expect_id, wire, r.uri] + self.payload_tail(args, kwargs)
            elif kind == "publish":
                r.uri = "com.example.topic.%s" % r.token
                opt = ch.pick(("none", "ack", "ack+exclude", "noack+opts", "ack+retain", "ack+empty-lists"), "pubopt", (2, 4, 2, 1, 1, 1.5))
                wire = {}
                o = None
                if opt == "ack":
                    o = types.PublishOptions(acknowledge=True)
                    wire = {"acknowledge": True}
                elif opt == "ack+exclude":
                    o = types.PublishOptions(acknowledge=True, exclude_me=False, exclude=[7, 8], eligible=9)
                    wire = {"acknowledge": True, "exclude_me": False, "exclude": [7, 8], "eligible": [9]}
                elif opt == "noack+opts":
                    o = types.PublishOptions(exclude_me=True, exclude_authid=["a"], eligible_authrole="r")
                    wire = {"exclude_me": True, "exclude_authid": ["a"], "eligible_authrole": ["r"]}
                elif opt == "ack+retain":
                    o = types.PublishOptions(acknowledge=True, retain=True)
                    wire = {"acknowledge": True, "retain": True}
                elif opt == "ack+empty-lists":
                    # an empty list is a value: "nobody is eligible" is the opposite of "no restriction"
                    o = types.PublishOptions(acknowledge=True, eligible=[], exclude_authrole=[])
                    wire = {"acknowledge": True, "eligible": [], "exclude_authrole": []}
                r.opts = {"opt": opt, "ack": opt.startswith("ack")}
                if o is not None:
                    fut = S.publish(r.uri, *args, options=o, **kwargs)
                else:
                    fut = S.publish(r.uri, *args, **kwargs)
                exp_marshal = [16, expect_id, wire, r.uri] + self.payload_tail(args, kwargs)
            elif kind == "subscribe":
                same = self.sub_ids and ch.flag("same-topic", 0.4)
                r.uri = ch.pick(sorted(self.sub_ids), "topic") if same else "com.example.sub.%s" % r.token
                opt = ch.pick(("none", "prefix", "details", "retained"), "subopt", (4, 1, 2, 1))
                wire = {}
                o = None
                if opt == "prefix":
                    o = types.SubscribeOptions(match="prefix")
                    wire = {"match": "prefix"}
                elif opt == "details":
                    o = types.SubscribeOptions(details_arg="details")
                elif opt == "retained":
                    o = types.SubscribeOptions(get_retained=True, match="wildcard")
                    wire = {"match": "wildcard", "get_retained": True}
                r.opts = {"opt": opt}
                r.target = self.make_handler(r)
                fut = S.subscribe(r.target, r.uri, options=o)
                exp_marshal = [32, expect_id, wire, r.uri]
            elif kind == "register":
                r.uri = "com.example.reg.%s" % r.token
                opt = ch.pick(("none", "roundrobin", "details", "prefix+conc"), "regopt", (4, 1, 1, 1))
                wire = {}
                o = None
                if opt == "roundrobin":
                    o = types.RegisterOptions(invoke="roundrobin")
                    wire = {"invoke": "roundrobin"}
                elif opt == "details":
                    o = types.RegisterOptions(details_arg="details")
                elif opt == "prefix+conc":
                    o = types.RegisterOptions(match="prefix", concurrency=3, force_reregister=True)
                    wire = {"match": "prefix", "concurrency": 3, "force_reregister": True}
                r.opts = {"opt": opt}
                r.target = lambda *a, **k: None
                fut = S.register(r.target, r.uri, options=o)
                exp_marshal = [64, expect_id, wire, r.uri]
            elif kind == "unsubscribe":
                i = ch.choose(len(self.subs), "which-sub")
                sub, sid, stoken = self.subs.pop(i)
                r.uri = None
                r.target = (sub, sid)
                last = not any(s[1] == sid for s in self.subs)
                r.opts = {"last": last, "sid": sid}
                fut = sub.unsubscribe()
                if last:
                    exp_marshal = [34, expect_id, sid]
                    for topic, x in list(self.sub_ids.items()):
                        if x == sid:
                            del self.sub_ids[topic]
                else:
                    exp_marshal = None
                    r.expect = ("ok", len([s for s in self.subs if s[1] == sid]))
            elif kind == "unregister":
                i = ch.choose(len(self.regs), "which-reg")
                reg, rid = self.regs.pop(i)
                r.uri = None
                r.target = (reg, rid)
                r.opts = {"rid": rid}
                fut = reg.unregister()
                exp_marshal = [66, expect_id, rid]
            elif kind == "cancel":
                calls = [x for x in self.reqs.values() if x.kind == "call" and x.state == "pending" and not x.cancelled]
                victim = ch.pick(calls, "victim")
                victim.cancelled = True
                r.opts = {"victim": victim.id}
                self.fw.cancel_future(victim.fut)
                exp_marshal = [49, victim.id, {}]
                r.kind = "cancel"
        except Exception as e:  # noqa
            if send_fails and "injected" in str(e):
                # the documented outcome of a failing send(): the exception reaches the caller, the id is spent,
                # nothing stays pending for it
                self.run.probe("api-raised-injected-send-failure")
                if len([m for m in self.t.sent[n0:] if not (self.claimed and id(m) in self.claimed)]):
                    self.run.violate("C04.one-request", "failed-send-still-on-the-wire:%s" % kind, "")
                return
            self.run.violate("C04.one-request", "api-raised:%s:%s" % (kind, type(e).__name__), repr(e))
            return
        finally:
            self.pending_alloc = None
            self.reply_inside_send = False
            self.fail_this_send = None
            self.t.send_fail = None
        if send_fails:
            self.run.violate("C04.one-request", "send-failure-swallowed:%s" % kind, "the transport's send() raised, the API call returned normally")
        r.fut = fut
        if fut is not None and kind != "cancel" and ch.flag("completion-callback-issues-call", 0.15):
            def chain(res, r=r):
                if self.t.attached and self.t.closing is None and not self.violated_session and (
                        self.session._session_id or self.goodbye_in_progress):
                    if self.goodbye_in_progress:
                        self.run.probe("request-issued-while-the-session-is-failing-its-requests")
                    self.chained_call(r)
                return res
            import txaio
            txaio.add_callbacks(fut, chain, chain)
        r.w = self.fw.watch(fut) if fut is not None else None
        return (r, kind, n0, exp_marshal, expect_id, fut)

    def verify_request(self, r, kind, n0, exp_marshal, expect_id, fut):
        # (requests issued re-entrantly from inside this one's send() were verified and claimed on their own)
        new = [m for m in self.t.sent[n0:] if not (self.claimed and id(m) in self.claimed)]
        if exp_marshal is None:
            if new:
                self.run.violate("C04.one-request", "unexpected-message:%s" % kind, repr([type(m).__name__ for m in new]))
            r.id = None
            r.fut = fut
            r.answered = True
            r.state = "done"
            self.order.append(r)
            self.reqs[("local", r.token)] = r
            return
        if len(new) != 1:
            self.run.violate("C04.one-request", "messages-sent:%d:%s" % (len(new), kind), repr([type(m).__name__ for m in new]))
            return
        got = jsonish(new[0].marshal())
        if got != jsonish(exp_marshal):
            what = "request-id" if (len(got) > 1 and got[1] != exp_marshal[1]) else "content"
            self.run.violate("C04.one-request", "wrong-%s:%s" % (what, kind), "sent %r expected %r" % (got, exp_marshal))
        if kind == "cancel":
            return
        # (self.prev_id was advanced when the id was drawn, i.e. at the first send attempt of the operation)
        if not (1 <= new[0].request <= MAXID):
            self.run.violate("C04.one-request", "id-out-of-range", str(new[0].request))
        r.id = expect_id
        r.fut = fut
        if kind == "publish" and not r.opts["ack"]:
            if fut is not None:
                self.run.violate("C04.completes-once", "unacknowledged-publish-returned-a-future", "")
            r.answered = True
            r.state = "done"
            r.expect = None
        self.reqs[r.id] = r
        self.order.append(r)

    def payload_tail(self, args, kwargs):
        if kwargs:
            return [jsonish(list(args)), jsonish(kwargs)]
        if args:
            return [jsonish(list(args))]
        return []

    def make_progress(self, holder):
        def on_progress(*a, **k):
            from autobahn.wamp import types
            r = holder.r if hasattr(holder, "r") else holder
            if len(a) == 1 and not k and isinstance(a[0], types.CallResult):
                # options.details: the progress arrives wrapped in a CallResult
                r.progress_got.append(("callresult", tuple(jsonish(list(a[0].results))), jsonish(a[0].kwresults)))
            else:
                r.progress_got.append(("plain", tuple(jsonish(list(a))), jsonish(k)))
            self.run.log("on_progress", r.token)
            if getattr(r, "reentrant", False) and self.t.attached and self.t.closing is None:
                r.reentrant = False
                self.nested_call(r)
        return on_progress

    def make_handler(self, r):
        def handler(*a, **k):
            self.handler_calls.append((r.token, a, sorted(k)))
        return handler

    # --- router side ---------------------------------------------------------------------------------------
    def router_reply(self, exclude=None):
        ch = self.run.ch
        M = self.M
        pend = [r for r in self.order if r.id is not None and not r.answered and r.kind != "cancel" and r.id != exclude]
        r = pend[ch.low(len(pend), "which-pending", 0.7)] if ch.flag("oldest-first", 0.4) else ch.pick(pend, "which-pending")
        # (a router may send a progressive result nobody asked for: a call without a progress handler ignores it)
        how = ch.pick(("ok", "error", "progress"), "how", (5, 2, 2 if (r.kind == "call" and "progress" in r.opts["opt"]) else (
            0.5 if r.kind == "call" else 0)))
        args, kwargs = ch.pick(ARGSETS, "reply-args")
        if r.cancelled and how == "ok" and ch.flag("cancel-wins", 0.7):
            how = "error"
        if how == "progress":
            msg = M.Result(r.id, args=list(args), kwargs=dict(kwargs) or None, progress=True)
            if "progress" not in r.opts["opt"]:
                self.run.probe("unsolicited-progressive-result")
            elif r.state == "pending":
                r.progress_exp.append(("callresult" if "details" in r.opts["opt"] else "plain", tuple(jsonish(list(args))), jsonish(kwargs)))
            self.run.probe("progressive-result")
            self.send_legal(r, msg, final=False)
            return
        r.answered = True
        if how == "error":
            uri = "wamp.error.canceled" if r.cancelled else ch.pick(("com.example.error.%s" % r.token, "wamp.error.no_such_procedure",
                                                                    "wamp.error.not_authorized", "com.example.error.strict"), "erruri")
            if uri == "com.example.error.strict" and self.cfg.get("defines"):
                self.run.probe("error-for-a-defined-class:%s" % ("fits" if (len(args) == 1 and not kwargs) else "constructor-refuses"))
            rt = {"call": 48, "publish": 16, "subscribe": 32, "unsubscribe": 34, "register": 64, "unregister": 66}[r.kind]
            msg = M.Error(rt, r.id, uri, args=list(args) or None, kwargs=dict(kwargs) or None)
            r.expect = ("err", uri, tuple(jsonish(list(args))), jsonish(kwargs))
        elif r.kind == "call":
            msg = M.Result(r.id, args=list(args) or None, kwargs=dict(kwargs) or None)
            a, k = tuple(jsonish(list(args))), jsonish(kwargs)
            if k or "details" in r.opts["opt"]:
                r.expect = ("callresult", a, k)
            elif len(a) > 1:
                r.expect = ("callresult", a, {})
            elif len(a) == 1:
                r.expect = ("ok", a[0])
            else:
                r.expect = ("ok", None)
        elif r.kind == "publish":
            pid = self.new_router_id()
            msg = M.Published(r.id, pid)
            r.expect = ("publication", pid)
        elif r.kind == "subscribe":
            sid = self.sub_ids.get(r.uri)
            if sid is None:
                sid = self.new_router_id()
                self.sub_ids[r.uri] = sid
            msg = M.Subscribed(r.id, sid)
            r.expect = ("subscription", sid, r.uri)
        elif r.kind == "register":
            rid = self.new_router_id()
            msg = M.Registered(r.id, rid)
            r.expect = ("registration", rid, r.uri)
        elif r.kind == "unsubscribe":
            msg = M.Unsubscribed(r.id)
            r.expect = ("ok", 0)
            # router-side truth: the session's subscription is gone now - also for a handler whose SUBSCRIBE was
            # answered with this same subscription id while the UNSUBSCRIBE was in flight
            sid = r.opts["sid"]
            self.subs = [x for x in self.subs if x[1] != sid]
            for topic, x in list(self.sub_ids.items()):
                if x == sid:
                    del self.sub_ids[topic]
        else:
            msg = M.Unregistered(r.id)
            r.expect = ("ok", None)
        if r.cancelled:
            # the application cancelled this call: its future is already complete (cancelled);
            # the late reply must be swallowed without changing anything
            r.expect = ("cancelled",)
        self.send_legal(r, msg, final=True)

    def new_router_id(self):
        self.next_router_id += 1 + self.run.ch.choose(3, "idgap")
        return self.next_router_id

    def send_legal(self, r, msg, final):
        exc = self.deliver(msg)
        if exc is not None:
            from worlds.ws import exc_site
            self.run.violate("C04.own-reply", "legal-reply-raised:%s:%s" % (type(msg).__name__, type(exc).__name__),
                             "%r at %s" % (exc, exc_site(exc)))
            return
        if final:
            r.state = "done"
            self.replies_sent.append(msg)
            if r.expect and r.expect[0] == "subscription" and r.w.state()[0] == "ok":
                self.subs.append((r.w.state()[1], r.expect[1], r.token))
            if r.expect and r.expect[0] == "registration" and r.w.state()[0] == "ok":
                self.regs.append((r.w.state()[1], r.expect[1]))
        self.settle()

    def router_adversarial(self):
        ch = self.run.ch
        M = self.M
        self.ops_left -= 1
        kind = ch.pick(("duplicate", "unknown-id", "wrong-type", "wrong-error-type", "published-for-noack", "event-unknown-sub",
                        "pre-session-msg", "reply-for-failed-send"), "adv")
        msg = None
        pend = [r for r in self.order if r.id is not None and not r.answered and r.kind != "cancel"]
        if kind == "duplicate" and self.replies_sent:
            msg = ch.pick(self.replies_sent, "dup")
            if isinstance(msg, M.Error) and False:
                pass
        elif kind == "unknown-id":
            rid = (self.prev_id + 1000 + ch.choose(5, "off")) % MAXID + 1
            msg = ch.pick((M.Result(rid, args=[1]), M.Published(rid, 1), M.Subscribed(rid, 2), M.Registered(rid, 3),
                           M.Unsubscribed(rid), M.Unregistered(rid), M.Error(48, rid, "wamp.error.x")), "unk")
        elif kind == "reply-for-failed-send":
            # the request never left (its send() raised): nothing is pending under that id
            ids = [i for i in self.failed_ids if i is not None and i not in self.reqs]
            if ids:
                rid = ch.pick(ids, "failed-id")
                msg = ch.pick((M.Result(rid, args=[1]), M.Error(48, rid, "wamp.error.x"), M.Published(rid, 1), M.Subscribed(rid, 2),
                               M.Registered(rid, 3)), "failed-reply")
        elif kind == "wrong-type" and pend:
            r = ch.pick(pend, "victim")
            cands = {"call": (M.Registered(r.id, 1), M.Published(r.id, 1), M.Subscribed(r.id, 9)),
                     "publish": (M.Result(r.id, args=[1]), M.Subscribed(r.id, 1)),
                     "subscribe": (M.Registered(r.id, 1), M.Published(r.id, 1), M.Unsubscribed(r.id)),
                     "register": (M.Subscribed(r.id, 1), M.Result(r.id), M.Unregistered(r.id)),
                     "unsubscribe": (M.Subscribed(r.id, 1), M.Unregistered(r.id)),
                     "unregister": (M.Unsubscribed(r.id), M.Registered(r.id, 5))}[r.kind]
            msg = ch.pick(cands, "wt")
        elif kind == "wrong-error-type" and pend:
            r = ch.pick(pend, "victim")
            rt = {"call": 16, "publish": 48, "subscribe": 64, "unsubscribe": 66, "register": 32, "unregister": 34}[r.kind]
            msg = M.Error(rt, r.id, "wamp.error.mismatch")
        elif kind == "published-for-noack":
            noack = [r for r in self.order if r.kind == "publish" and r.id is not None and not r.opts["ack"]]
            if noack:
                msg = M.Published(ch.pick(noack, "noack").id, 4242)
        elif kind == "event-unknown-sub":
            msg = M.Event(999999, 1, args=[1])
        elif kind == "pre-session-msg":
            msg = ch.pick((M.Welcome(5, {"broker": __import__("autobahn.wamp.role", fromlist=["x"]).RoleBrokerFeatures()}),
                           M.Challenge("ticket"), M.Abort("wamp.error.x")), "pre")
        if msg is None:
            return
        self.run.fault("adversarial:" + kind)
        before = self.snapshot()
        n0 = len(self.t.sent)
        exc = self.deliver(msg)
        self.settle()
        from autobahn.wamp.exception import ProtocolError
        if not isinstance(exc, ProtocolError):
            self.run.violate("C04.unknown-rejected", "%s:%s" % (kind, type(exc).__name__ if exc is not None else "accepted"),
                             "%s -> %r" % (type(msg).__name__, exc))
        after = self.snapshot()
        if before != after:
            self.run.violate("C04.unknown-rejected", "illegal-reply-changed-state:" + kind, "%r -> %r" % (before, after))
        if len(self.t.sent) != n0:
            self.run.violate("C04.unknown-rejected", "illegal-reply-caused-send:" + kind, "")
        # a real transport closes on a protocol violation
        self.violated_session = True

    def router_push(self):
        ch = self.run.ch
        M = self.M
        args, kwargs = ch.pick(ARGSETS, "push-args")
        if self.subs and (not self.regs or ch.flag("event")):
            sub, sid, tok = ch.pick(self.subs, "sub")
            msg = M.Event(sid, self.new_router_id(), args=list(args) or None, kwargs=dict(kwargs) or None)
        else:
            reg, rid = ch.pick(self.regs, "reg")
            msg = M.Invocation(self.new_router_id(), rid, args=list(args) or None, kwargs=dict(kwargs) or None)
        before = self.snapshot()
        exc = self.deliver(msg)
        self.settle()
        if exc is not None:
            self.run.violate("C04.own-reply", "push-raised:%s:%s" % (type(msg).__name__, type(exc).__name__), repr(exc))
        if self.snapshot() != before:
            self.run.violate("C04.own-reply", "event-or-invocation-completed-a-request", "")
        self.run.probe("interleaved-push")

    # --- oracle ---------------------------------------------------------------------------------------------
    def snapshot(self):
        out = []
        for r in self.order:
            if r.fut is None:
                continue
            st = r.w.state()
            out.append((r.token, st[0], len(r.progress_got)))
        return tuple(out)

    def value_matches(self, r, st):
        e = r.expect
        from autobahn.wamp import types
        from autobahn.wamp.exception import ApplicationError
        if e is None:
            return True
        if e[0] == "cancelled":
            return st[0] == "err"
        if e[0] == "err":
            if st[0] != "err":
                return False
            x = st[1]
            if isinstance(x, StrictErr):
                # the registered class, built from the carried arguments
                return e[1] == "com.example.error.strict" and self.cfg.get("defines") and len(e[2]) == 1 and not e[3] \
                    and jsonish(list(x.args)) == list(e[2])
            return isinstance(x, ApplicationError) and x.error == e[1] and tuple(jsonish(list(x.args))) == e[2] and jsonish(x.kwargs) == e[3]
        if st[0] != "ok":
            return False
        v = st[1]
        if e[0] == "ok":
            return jsonish(v) == e[1] if not isinstance(v, types.CallResult) else False
        if e[0] == "callresult":
            return isinstance(v, types.CallResult) and tuple(jsonish(list(v.results))) == e[1] and jsonish(v.kwresults) == e[2]
        if e[0] == "publication":
            return getattr(v, "id", None) == e[1]
        if e[0] == "subscription":
            return getattr(v, "id", None) == e[1] and v.topic == e[2] and v.handler.fn is r.target and v.active
        if e[0] == "registration":
            return getattr(v, "id", None) == e[1] and v.procedure == e[2] and v.endpoint.fn is r.target
        return False

    def check_step(self):
        SessionWorld.check_step(self)
        run = self.run
        for where, exc in self.escaped:
            from worlds.ws import exc_site
            run.violate("C04.completes-once", "exception:%s:%s:%s" % (where, type(exc).__name__, exc_site(exc)), repr(exc))
        self.escaped = []
        for r in self.order:
            if r.fut is None:
                continue
            st = r.w.state()
            if getattr(r, "_bad", False):
                continue
            if r.state == "pending" and not r.cancelled and not self.lost:
                if st[0] != "pending":
                    r._bad = True
                    run.violate("C04.own-reply", "completed-without-own-reply:%s" % r.kind, "%s -> %r" % (r.token, st))
            elif r.state == "done":
                if st[0] == "pending" and not self.lost:
                    r._bad = True
                    run.violate("C04.completes-once", "reply-did-not-complete:%s" % r.kind, r.token)
                elif st[0] != "pending" and getattr(r, "_validated", None) is None:
                    r._validated = True  # the value is judged once, when the completion is first seen
                    if self.value_matches(r, st) or (self.lost and r.expect is None):
                        continue
                    r._bad = True
                    run.violate("C04.own-reply", "wrong-value:%s:%s" % (r.kind, r.expect[0] if r.expect else None),
                                "%s expected %r got %r" % (r.token, r.expect, _brief(st)))
            if r.kind == "call" and r.progress_got != r.progress_exp[:len(r.progress_got)] or len(r.progress_got) > len(r.progress_exp):
                if not getattr(r, "_pbad", False):
                    r._pbad = True
                    run.violate("C04.progress-own", "progress-mismatch", "%s got %r expected %r" % (r.token, r.progress_got, r.progress_exp))

    def final(self):
        self.check_step()
        run = self.run
        for r in self.order:
            if r.fut is None or getattr(r, "_bad", False):
                continue
            st = r.w.state()
            if r.kind == "call" and r.state == "done" and r.progress_got != r.progress_exp and not r.cancelled:
                run.violate("C04.progress-own", "progress-lost", "%s got %d of %d" % (r.token, len(r.progress_got), len(r.progress_exp)))
            if not self.t.attached:
                # transport gone: nothing may stay pending, and what was pending ends in an error
                if st[0] == "pending":
                    run.violate("C04.completes-once", "pending-after-transport-loss:%s" % r.kind, r.token)
                elif r.state == "pending" and st[0] != "err" and not (r.kind == "publish" and not r.opts.get("ack")):
                    run.violate("C04.completes-once", "unanswered-request-succeeded-after-loss:%s" % r.kind, r.token)

    def nontrivial(self):
        return sum(1 for r in self.order if r.state == "done" and r.id is not None) >= 2

    def sample(self):
        return {"config": self.cfg, "mode": self.mode,
                "requests": [{"id": r.id, "kind": r.kind, "token": r.token, "state": r.state, "expect": repr(r.expect)[:80]} for r in self.order][:20]}


def _brief(st):
    if st[0] == "err":
        return ("err", type(st[1]).__name__, getattr(st[1], "error", None), getattr(st[1], "args", None))
    return (st[0], repr(st[1])[:120] if len(st) > 1 else None)
