"""
C18 - remote exceptions arrive with their URI, arguments and class.

Two real sessions (callee, caller) with different exception registries, a scripted dealer between
them over real serializers; several calls in flight whose endpoints raise different classes; the
dealer forwards the ERRORs late and out of order.  (The mapping itself is a pair of functions; the
simulation supplies the two-party, concurrent setting - stated in the evidence.)
"""

from worlds.duo import DuoWorld
from worlds.wamp import SERIALIZERS, session_classes

from checks.c04 import jsonish

PROP = "C18"
MAX_STEPS = 80

RAISES = ("app-error", "app-error-kwargs", "decorated", "defined", "undefined", "picky", "kwonly", "with-kwargs-attr", "app-error-noargs",
          "on-cancel", "app-error-same-instance", "app-error-carrying-traceback", "app-error-falsy-args")


class DefinedError(Exception):
    pass


class UndefinedError(Exception):
    pass


class PickyError(Exception):
    """constructor incompatible with most carried argument lists"""

    def __init__(self, a, b):
        Exception.__init__(self, a, b)


class KwOnlyError(Exception):
    def __init__(self, *, code):
        Exception.__init__(self)
        self.kwargs = {"code": code}


class WithKwargs(Exception):
    def __init__(self, *args, **kwargs):
        Exception.__init__(self, *args)
        self.kwargs = kwargs


class StrictError(Exception):
    """constructor that fails with something other than TypeError when the carried payload does not suit it"""

    def __init__(self, *args, **kwargs):
        Exception.__init__(self, *args)
        self.kwargs = {"info": kwargs["info"]}  # KeyError without it
        if len(args) > 2:
            raise ValueError("too many arguments")


_decorated = {}


def decorated_class():
    if "c" not in _decorated:
        from autobahn import wamp

        @wamp.error("com.example.decorated")
        class DecoratedError(Exception):
            pass
        _decorated["c"] = DecoratedError
    return _decorated["c"]


ARGS = [(), ("only",), ("a", 2), ("a", 2, [3, {"x": None}])]


class CallRec:
    pass


class World(DuoWorld):
    PROP = PROP

    def __init__(self, run, mode=None):
        DuoWorld.__init__(self, run)
        self.calls = []
        self.by_tok = {}
        self.by_call_id = {}
        self.kept_error = None
        self.pending_forward = []  # ERRORs from the callee not yet forwarded to the caller
        self.interruptible = []  # invocations whose endpoint is pending and fails with its own error when cancelled
        self.ops_left = 0

    def build(self):
        ch = self.run.ch
        self.make_reactor()
        fwamp = session_classes()
        from autobahn.wamp import message
        from autobahn.wamp.types import ComponentConfig
        self.M = message
        cfg = self.cfg = {
            "ser_callee": ch.pick(SERIALIZERS, "ser-callee"),
            "ser_caller": ch.pick(SERIALIZERS, "ser-caller"),
            "traceback": ch.flag("traceback_app", 0.3),
            "caller_knows": [n for n in ("decorated", "defined", "picky", "kwonly", "withkwargs", "defined-as-picky", "withkwargs-as-strict",
                                                 "defined-as-strict") if ch.flag("caller:" + n)],
            "callee_defines": ch.flag("callee-defines", 0.8),
        }
        Dec = decorated_class()
        callee = fwamp.ApplicationSession(ComponentConfig(realm="realm1"))
        caller = fwamp.ApplicationSession(ComponentConfig(realm="realm1"))
        callee.traceback_app = cfg["traceback"]
        self.callee_map = {}
        if cfg["callee_defines"]:
            callee.define(Dec)
            callee.define(DefinedError, "com.example.defined")
            callee.define(PickyError, "com.example.picky")
            callee.define(KwOnlyError, "com.example.kwonly")
            callee.define(WithKwargs, "com.example.withkwargs")
            self.callee_map = {Dec: "com.example.decorated", DefinedError: "com.example.defined", PickyError: "com.example.picky",
                               KwOnlyError: "com.example.kwonly", WithKwargs: "com.example.withkwargs"}
        self.caller_map = {}
        for n in cfg["caller_knows"]:
            if n == "decorated":
                caller.define(Dec)
                self.caller_map["com.example.decorated"] = Dec
            elif n == "defined":
                caller.define(DefinedError, "com.example.defined")
                self.caller_map["com.example.defined"] = DefinedError
            elif n == "picky":
                caller.define(PickyError, "com.example.picky")
                self.caller_map["com.example.picky"] = PickyError
            elif n == "kwonly":
                caller.define(KwOnlyError, "com.example.kwonly")
                self.caller_map["com.example.kwonly"] = KwOnlyError
            elif n == "withkwargs":
                caller.define(WithKwargs, "com.example.withkwargs")
                self.caller_map["com.example.withkwargs"] = WithKwargs
            elif n == "withkwargs-as-strict" and "com.example.withkwargs" not in self.caller_map:
                # constructor raises KeyError / ValueError (not TypeError) for some carried payloads
                caller.define(StrictError, "com.example.withkwargs")
                self.caller_map["com.example.withkwargs"] = StrictError
            elif n == "defined-as-strict" and "com.example.defined" not in self.caller_map:
                caller.define(StrictError, "com.example.defined")
                self.caller_map["com.example.defined"] = StrictError
            elif n == "defined-as-picky" and "com.example.defined" not in self.caller_map:
                # the caller maps the URI to a class whose constructor fits only two-argument errors
                caller.define(PickyError, "com.example.defined")
                self.caller_map["com.example.defined"] = PickyError
        # end-to-end payload encryption on both sessions (same symmetric default key): the dealer forwards the opaque
        # payload fields as they are, and URI / arguments / class arrive just the same
        cfg["payload_codec"] = ch.flag("payload-codec", 0.25)
        self.ref_ring = None
        if cfg["payload_codec"]:
            import base64
            import hashlib
            from autobahn.wamp.cryptobox import KeyRing
            key = base64.b64encode(hashlib.sha256(b"c18-shared-key").digest()).decode()
            callee.set_payload_codec(KeyRing(default_key=key))
            caller.set_payload_codec(KeyRing(default_key=key))
            self.ref_ring = KeyRing(default_key=key)  # the dealer-side observer's own copy, to read what went by
            self.run.probe("payload-codec-active")
        cfg["reentrant_onUserError"] = ch.flag("reentrant-onUserError", 0.25)
        if cfg["reentrant_onUserError"]:
            # the application's error hook reports every endpoint failure by publishing it - a call into the session
            # from inside the library's error handling; the router may hand over the next INVOCATION during that send()
            def on_user_error(fail, msg):
                self.run.probe("onUserError-publishes")
                try:
                    callee.publish("com.example.error-reports", "an endpoint failed")
                except Exception as e:  # noqa
                    self.run.log("onUserError-publish-raised", type(e).__name__)
            callee.onUserError = on_user_error
        elif ch.flag("onUserError-hook-itself-fails", 0.15):
            # an error hook with a bug of its own: the library guards the call - the endpoint's error goes out all the same
            cfg["failing_onUserError"] = True

            def broken_hook(fail, msg):
                self.run.probe("onUserError-raises")
                raise RuntimeError("bug in the application's error hook")
            callee.onUserError = broken_hook
        self.callee = self.add_side("callee", callee, cfg["ser_callee"])
        self.caller = self.add_side("caller", caller, cfg["ser_caller"])
        self.join_all()
        self.call(callee.register, self.endpoint, "com.example.proc")
        self.settle()
        reg = [m for m in self.callee.inbox if isinstance(m, message.Register)]
        self.deliver_to(self.callee, message.Registered(reg[-1].request, 4242))
        self.settle()
        self.callee.cursor = len(self.callee.inbox)
        self.caller.cursor = len(self.caller.inbox)
        self.ops_left = 2 + ch.choose(6, "ncalls")
        self.late_defines_left = ch.choose(3, "n-late-defines", (4, 2, 1))
        self.tb_toggles_left = ch.choose(3, "n-traceback-toggles", (4, 2, 1))
        self.tb_initial = self.cfg["traceback"]
        self.tb_history = []
        self.run.log("cfg", sorted((k, repr(v)) for k, v in cfg.items()))
        self.next_inv = 7000

    def endpoint(self, tok):
        from autobahn.wamp.exception import ApplicationError
        rec = self.by_tok[tok]
        rec.invoked += 1
        a = rec.args
        k = rec.kind
        Dec = decorated_class()
        self.run.log("endpoint", tok, k)
        rec.expected = self.expected_error(rec)  # under the callee's registry as it is at the moment of the raise
        if k == "app-error":
            raise ApplicationError("com.example.carried.%s" % tok, *a)
        if k == "app-error-kwargs":
            raise ApplicationError("com.example.carried.%s" % tok, *a, reason="why", n=3)
        if k == "app-error-noargs":
            raise ApplicationError("com.example.defined")
        if k == "app-error-falsy-args":
            # arguments that are all "nothing" in a boolean sense are arguments all the same
            raise ApplicationError("com.example.falsy", 0, "", None, [])
        if k == "app-error-carrying-traceback":
            # an error passed on from further down the line: it already carries a 'traceback' among its keyword arguments
            raise ApplicationError("com.example.relayed", *a, traceback="Traceback (remote)", code=7)
        if k == "app-error-same-instance":
            # the application keeps one exception object and raises it whenever the condition recurs
            if self.kept_error is None:
                self.kept_error = ApplicationError("com.example.overloaded", "try later", code=503, retry_after=5)
            else:
                self.run.probe("same-exception-instance-raised-again")
            raise self.kept_error
        if k == "decorated":
            raise Dec(*a)
        if k == "defined":
            raise DefinedError(*a)
        if k == "undefined":
            raise UndefinedError(*a)
        if k == "picky":
            raise PickyError("p", "q")
        if k == "kwonly":
            raise KwOnlyError(code=7)
        if k == "with-kwargs-attr":
            raise WithKwargs(*a, info="i")
        if k == "on-cancel":
            return self.cancel_aware(rec)
        raise RuntimeError(k)

    def cancel_aware(self, rec):
        """A pending endpoint that turns its cancellation (dealer INTERRUPT) into an application error of its own."""
        from autobahn.wamp.exception import ApplicationError
        make = lambda: ApplicationError("com.example.carried.%s.cancelled" % rec.tok, *rec.args, reason="cancelled")  # noqa
        self.interruptible.append(rec)
        if self.fwname == "tx":
            from twisted.internet import defer
            return defer.Deferred(canceller=lambda d: d.errback(make()))
        import asyncio
        f = self.fw.new_future(self)

        async def co():
            try:
                return await f
            except asyncio.CancelledError:
                raise make()
        return co()

    def expected_error(self, rec):
        """(uri, args, kwargs) the callee must put on the wire."""
        Dec = decorated_class()
        k = rec.kind
        a = list(rec.args)
        if k == "app-error":
            return "com.example.carried.%s" % rec.tok, a, {}
        if k == "app-error-kwargs":
            return "com.example.carried.%s" % rec.tok, a, {"reason": "why", "n": 3}
        if k == "app-error-noargs":
            return "com.example.defined", [], {}
        if k == "app-error-falsy-args":
            return "com.example.falsy", [0, "", None, []], {}
        if k == "app-error-carrying-traceback":
            return "com.example.relayed", a, {"code": 7}
        if k == "app-error-same-instance":
            return "com.example.overloaded", ["try later"], {"code": 503, "retry_after": 5}
        if k == "on-cancel":
            return "com.example.carried.%s.cancelled" % rec.tok, a, {"reason": "cancelled"}
        cls, args, kw = {"decorated": (Dec, a, {}), "defined": (DefinedError, a, {}), "undefined": (UndefinedError, a, {}),
                         "picky": (PickyError, ["p", "q"], {}), "kwonly": (KwOnlyError, [], {"code": 7}),
                         "with-kwargs-attr": (WithKwargs, a, {"info": "i"})}[k]
        uri = self.callee_map.get(cls, "wamp.error.runtime_error")
        return uri, args, kw

    # --- actions -----------------------------------------------------------------------------------------------
    def actions(self):
        acts = self.base_actions()
        if self.ops_left > 0:
            acts.append((3.0, "call", self.do_call))
        if self.unread(self.caller):
            acts.append((4.0, "route-call", self.route_call))
        if self.unread(self.callee):
            acts.append((4.0, "collect-error", self.collect_error))
        if self.pending_forward:
            acts.append((3.0, "forward-error", self.forward_error))
        if [r for r in self.interruptible if r.inv_id is not None]:
            acts.append((3.0, "interrupt", self.interrupt))
        if self.late_defines_left > 0 and self.calls:
            acts.append((1.0, "late-define", self.late_define))
        if self.tb_toggles_left > 0 and self.calls:
            acts.append((0.7, "app-toggles-traceback-forwarding", self.toggle_traceback))
        return acts

    def toggle_traceback(self):
        """the application switches traceback forwarding on or off while the session is in use (a debug switch): every
        ERROR goes out under the setting in force when it is produced - nothing of an earlier ERROR sticks"""
        self.tb_toggles_left -= 1
        self.cfg["traceback"] = not self.cfg["traceback"]
        self.callee.session.traceback_app = self.cfg["traceback"]
        self.tb_history.append((len(self.callee.inbox), self.cfg["traceback"]))
        self.run.fault("traceback-forwarding-toggled")
        self.run.log("app", "traceback_app =", self.cfg["traceback"])

    def late_define(self):
        """the callee registers (or re-registers) an exception class while the session is in use - possibly after an
        exception of that class has already gone through the session"""
        ch = self.run.ch
        self.late_defines_left -= 1
        cls, uri = ch.pick(((UndefinedError, "com.example.late_defined"), (DefinedError, "com.example.redefined"),
                            (UndefinedError, "com.example.late_defined_again"), (UndefinedError, "com.example.Not A Valid.URI"),
                            (DefinedError, "com.example.Not A Valid.URI"), (None, "com.example.Also Not Valid")), "late-define")
        self.run.fault("late-define")
        if " " in uri:
            # a definition the library refuses (malformed URI): the application catches the error and carries on;
            # the registries of both sessions stay as they were
            who, cls = (self.caller, StrictError) if cls is None else (self.callee, cls)
            self.run.log("app", "refused-define", cls.__name__, uri)
            try:
                who.session.define(cls, uri)
            except Exception as e:  # noqa
                self.run.probe("define-refused:%s" % type(e).__name__)
            else:
                self.run.probe("malformed-define-accepted")
                if who is self.callee:
                    self.callee_map[cls] = uri
                else:
                    self.caller_map[uri] = cls
            return
        self.run.log("app", "callee.define", cls.__name__, uri)
        self.callee.session.define(cls, uri)
        self.callee_map[cls] = uri

    def interrupt(self):
        """the dealer cancels an invocation in flight"""
        cands = [r for r in self.interruptible if r.inv_id is not None]
        rec = cands[self.run.ch.choose(len(cands), "which-interrupt")]
        self.interruptible.remove(rec)
        self.run.fault("interrupt")
        err = self.deliver_to(self.callee, self.M.Interrupt(rec.inv_id, mode=self.run.ch.pick((None, "kill", "killnowait"), "mode")))
        self.settle()
        if err is not None:
            self.run.violate("C18.own-call", "interrupt-raised:%s" % type(err).__name__, repr(err))

    def on_sent_side(self, side, msg):
        # the router hands the next waiting INVOCATION to the callee from inside the callee's own send()
        if side is self.callee and isinstance(msg, self.M.Publish) and msg.topic == "com.example.error-reports" \
                and self.unread(self.caller) and not getattr(self, "_in_reentrant_route", False):
            self._in_reentrant_route = True
            try:
                self.run.probe("invocation-delivered-inside-send")
                self.route_call(settle=False)  # (no nested loop iterations: the continuation runs when the outer step settles)
            finally:
                self._in_reentrant_route = False

    def do_call(self):
        ch = self.run.ch
        self.ops_left -= 1
        rec = CallRec()
        rec.tok = "k%d" % len(self.calls)
        rec.kind = ch.pick(RAISES, "raise")
        rec.args = ch.pick(ARGS, "args")
        rec.invoked = 0
        rec.inv_id = None
        rec.call_id = None
        rec.error_seen = None
        self.calls.append(rec)
        self.by_tok[rec.tok] = rec
        f = self.call(self.caller.session.call, "com.example.proc", rec.tok)
        rec.w = self.fw.watch(f)
        last = self.caller.inbox[-1] if self.caller.inbox else None
        if isinstance(last, self.M.Call) and last.request not in self.by_call_id:
            self.by_call_id[last.request] = rec
        self.settle()
        self.run.log("app", "call", rec.tok, rec.kind, rec.args)

    def route_call(self, settle=True):
        M = self.M
        side = self.caller
        msg = side.inbox[side.cursor]
        side.cursor += 1
        if not isinstance(msg, M.Call):
            return
        rec = self.by_call_id.get(msg.request)
        if rec is None:
            return
        rec.call_id = msg.request
        self.next_inv += 1
        rec.inv_id = self.next_inv
        if msg.payload is not None:
            inv = M.Invocation(rec.inv_id, 4242, payload=msg.payload, enc_algo=msg.enc_algo, enc_key=msg.enc_key,
                               enc_serializer=msg.enc_serializer)
        else:
            inv = M.Invocation(rec.inv_id, 4242, args=[rec.tok])
        err = self.deliver_to(self.callee, inv)
        if settle:
            self.settle()
        if err is not None:
            self.run.violate("C18.own-call", "invocation-raised:%s" % type(err).__name__, repr(err))

    def collect_error(self):
        M = self.M
        side = self.callee
        msg = side.inbox[side.cursor]
        # the traceback setting in force when this message was produced
        tb_on = self.tb_initial
        for pos, val in self.tb_history:
            if pos <= side.cursor:
                tb_on = val
        side.cursor += 1
        rec = None
        for r in self.calls:
            if r.inv_id == getattr(msg, "request", None):
                rec = r
        if rec is None:
            return
        if not isinstance(msg, M.Error):
            self.run.violate("C18.uri-args-kwargs", "no-ERROR-for-raising-endpoint:%s" % type(msg).__name__, rec.tok)
            return
        uri, args, kw = getattr(rec, "expected", None) or self.expected_error(rec)
        rec.error_enc = None
        if self.ref_ring is not None:
            if msg.payload is None or msg.enc_algo != "cryptobox":
                self.run.violate("C18.uri-args-kwargs", "error-not-encoded-although-codec-active", rec.tok)
                return
            from autobahn.wamp.types import EncodedPayload
            rec.error_enc = dict(payload=msg.payload, enc_algo=msg.enc_algo, enc_key=msg.enc_key, enc_serializer=msg.enc_serializer)
            try:
                inner_uri, dargs, dkw = self.ref_ring.decode(True, msg.error, EncodedPayload(msg.payload, msg.enc_algo, msg.enc_serializer, msg.enc_key))
            except Exception as e:  # noqa
                self.run.violate("C18.uri-args-kwargs", "error-payload-undecodable:%s" % type(e).__name__, repr(e))
                return
            if inner_uri != msg.error:
                self.run.violate("C18.uri-args-kwargs", "error-uri-inside-differs", "%s vs %s" % (inner_uri, msg.error))
            msg = M.Error(msg.request_type, msg.request, msg.error, args=dargs, kwargs=dkw)
        got_kw = dict(msg.kwargs or {})
        tb = got_kw.pop("traceback", None)
        if tb_on:
            if tb is None:
                self.run.violate("C18.uri-args-kwargs", "traceback-not-forwarded", rec.tok)
        elif tb is not None and rec.kind != "app-error-carrying-traceback":
            # (an error that carries a 'traceback' keyword argument of its own keeps one; its content is not judged -
            # 'traceback' is the library's own keyword, ApplicationError.__str__ abbreviates it in place)
            self.run.violate("C18.uri-args-kwargs", "traceback-forwarded-although-off", rec.tok)
        if msg.error != uri:
            self.run.violate("C18.uri-args-kwargs", "error-uri:%s:%s" % (rec.kind, msg.error), "expected %s" % uri)
        if jsonish(list(msg.args or [])) != jsonish(args) or jsonish(got_kw) != jsonish(kw):
            self.run.violate("C18.uri-args-kwargs", "error-payload:%s" % rec.kind, "%r %r expected %r %r" % (msg.args, got_kw, args, kw))
        rec.error_seen = (msg.error, list(msg.args or []), dict(msg.kwargs or {}))
        self.pending_forward.append(rec)

    def forward_error(self):
        ch = self.run.ch
        M = self.M
        rec = self.pending_forward.pop(ch.choose(len(self.pending_forward), "which"))
        if len(self.pending_forward) >= 1:
            self.run.probe("errors-forwarded-out-of-order")
        uri, args, kw = rec.error_seen
        before = {r.tok: r.w.state()[0] for r in self.calls}
        if getattr(rec, "error_enc", None):
            err = self.deliver_to(self.caller, M.Error(48, rec.call_id, uri, **rec.error_enc))
        else:
            err = self.deliver_to(self.caller, M.Error(48, rec.call_id, uri, args=args or None, kwargs=kw or None))
        self.settle()
        if err is not None:
            self.run.violate("C18.never-lost", "error-delivery-raised:%s" % type(err).__name__, repr(err))
            return
        rec.forwarded = True
        for r in self.calls:
            st = r.w.state()[0]
            if r is not rec and st != before[r.tok]:
                self.run.violate("C18.own-call", "error-completed-another-call", "%s completed by error of %s" % (r.tok, rec.tok))
        st = rec.w.state()
        if st[0] != "err":
            self.run.violate("C18.never-lost", "call-not-failed:%s" % st[0], rec.tok)
            return
        self.judge_failure(rec, st[1], uri, args, kw)

    def judge_failure(self, rec, exc, uri, args, kw):
        from autobahn.wamp.exception import ApplicationError
        run = self.run
        ecls = self.caller_map.get(uri)
        a = tuple(jsonish(list(args)))
        k = jsonish(kw)
        if ecls is not None and isinstance(exc, ecls) and not isinstance(exc, ApplicationError):
            run.probe("registered-class-constructed")
            # constructed from those arguments
            try:
                want = ecls(*a, **k)
            except Exception:
                run.violate("C18.class-or-generic", "class-constructed-although-constructor-incompatible", "%s %r %r" % (ecls.__name__, a, k))
                return
            if tuple(jsonish(list(exc.args))) != tuple(jsonish(list(want.args))) or jsonish(getattr(exc, "kwargs", {})) != jsonish(getattr(want, "kwargs", {})):
                run.violate("C18.class-or-generic", "class-arguments-differ:%s" % ecls.__name__, "%r vs %r" % (exc.args, want.args))
            return
        if not isinstance(exc, ApplicationError):
            run.violate("C18.class-or-generic", "neither-registered-class-nor-ApplicationError:%s" % type(exc).__name__, repr(exc))
            return
        run.probe("generic-application-error")
        if ecls is not None:
            # generic fallback is legitimate only if the registered class could not be constructed
            try:
                ecls(*a, **k)
                constructible = True
            except Exception:
                constructible = False
            if constructible:
                run.violate("C18.class-or-generic", "generic-although-registered-class-constructible:%s" % ecls.__name__, uri)
            else:
                run.probe("constructor-incompatible-fallback")
                try:
                    ecls(*a, **k)
                except TypeError:
                    pass
                except Exception as e:  # noqa
                    run.probe("constructor-raised-%s-fallback" % type(e).__name__)
        if exc.error != uri or tuple(jsonish(list(exc.args))) != a or jsonish(exc.kwargs) != k:
            run.violate("C18.never-lost", "generic-error-content-differs", "%s %r %r vs %s %r %r" % (exc.error, exc.args, exc.kwargs, uri, a, k))

    def drain(self):
        self.draining = True
        guard = 0
        while guard < 200:
            guard += 1
            self.settle()
            if self.unread(self.caller):
                self.route_call()
            elif [r for r in self.interruptible if r.inv_id is not None]:
                self.interrupt()
            elif self.unread(self.callee):
                self.collect_error()
            elif self.pending_forward:
                self.forward_error()
            else:
                break

    def check_step(self):
        DuoWorld.check_step(self)
        for where, exc in self.escaped:
            self.run.probe("escaped:%s" % type(exc).__name__)
        self.escaped = []

    def final(self):
        for rec in self.calls:
            if rec.invoked > 1:
                self.run.violate("C18.own-call", "endpoint-invoked-twice", rec.tok)
            if rec.w.state()[0] == "pending":
                self.run.violate("C18.never-lost", "call-still-pending", "%s (%s)" % (rec.tok, rec.kind))

    def nontrivial(self):
        return len([r for r in self.calls if getattr(r, "forwarded", False)]) >= 1

    def sample(self):
        return {"config": {k: repr(v) for k, v in self.cfg.items()},
                "calls": [{"tok": r.tok, "raises": r.kind, "args": repr(r.args), "outcome": repr(r.w.state())[:100]} for r in self.calls]}
