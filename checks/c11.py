"""
C11 - events reach exactly the handlers subscribed at that moment.

Session world; reference model: subscription id -> ordered list of handlers.  Handlers are sync
or async, may raise, and may unsubscribe (themselves or others) from inside the dispatch.
"""

from worlds.wamp import SERIALIZERS, SessionWorld, StubTransport, session_classes

from checks.c04 import ARGSETS, jsonish

PROP = "C11"
MAX_STEPS = 80


class H:
    """One subscribed handler (model side)."""

    def __init__(self, token, topic, behaviour, details, is_async):
        self.token = token
        self.topic = topic
        self.behaviour = behaviour  # 'ok' / 'raise' / 'unsub-self' / 'unsub-next' / 'unsub-prev'
        self.details = details
        self.is_async = is_async
        self.sub = None  # library Subscription
        self.sid = None
        self.active = False
        self.unsub_returned = False
        self.calls = []


class World(SessionWorld):
    PROP = PROP

    def __init__(self, run, mode=None):
        SessionWorld.__init__(self, run)
        self.handlers = []
        self.pending_subs = {}  # request id -> H
        self.pending_unsubs = {}  # request id -> sid
        self.unsub_futs = {}  # request id -> the future unsubscribe() returned
        self.model = {}  # sid -> [H] in subscription order (handlers currently attached)
        self.ever_held = set()
        self.router_subs = {}  # topic -> sid
        self.router_active = {}  # sid -> bool (router regards session as subscribed)
        self.next_id = 9000
        self.tok = 0
        self.ops_left = 0
        self.invocations = []  # (event_no, token) in call order
        self.event_no = 0
        self.violated = False
        self.objs = []

    def build(self):
        ch = self.run.ch
        self.make_reactor()
        fwamp = session_classes()
        from autobahn.wamp import message, role
        from autobahn.wamp.types import ComponentConfig
        self.M = message
        self.cfg = {"serializer": ch.pick(SERIALIZERS, "serializer")}
        self.t = StubTransport(self, self.cfg["serializer"])
        self.session = fwamp.ApplicationSession(ComponentConfig(realm="realm1"))
        self.call(self.session.onOpen, self.t)
        self.settle()
        roles = {"broker": role.RoleBrokerFeatures(), "dealer": role.RoleDealerFeatures()}
        err = self.deliver(message.Welcome(88001, roles, realm="realm1", authid="anon", authrole="user", authmethod="anonymous"))
        self.settle()
        if err is not None or self.session._session_id != 88001:
            from sim.core import SetupViolation, HarnessError
            raise SetupViolation("session-did-not-join-on-WELCOME", repr(err)[:200])
        self.ops_left = 4 + ch.choose(14, "nops")
        if ch.flag("router-assigns-small-ids", 0.25):
            # subscription and publication ids from the same small range as the session's request ids: they are different
            # number spaces, equal numbers mean nothing
            self.next_id = ch.choose(6, "first-router-id")
            self.cfg["small_ids"] = True
        self.run.log("cfg", sorted(self.cfg.items()))

    # --- the application's handlers ------------------------------------------------------------------------
    def make_fn(self, h):
        world = self

        def body(args, kwargs):
            world.invocations.append((world.event_no, h.token))
            h.calls.append((world.event_no, tuple(jsonish(list(args))), {k: v for k, v in kwargs.items() if k != "details"},
                            kwargs.get("details")))
            world.run.log("handler", h.token, world.event_no)
            if h.unsub_returned:
                world.run.violate("C11.never-after-unsub", "invoked-after-unsubscribe-returned", h.token)
            if h.behaviour == "unsub-self":
                world.unsubscribe(h, inside=True)
            elif h.behaviour in ("unsub-next", "unsub-prev"):
                lst = world.model.get(h.sid, [])
                if h in lst:
                    i = lst.index(h)
                    j = i + 1 if h.behaviour == "unsub-next" else i - 1
                    if 0 <= j < len(lst):
                        world.unsubscribe(lst[j], inside=True)
            if h.behaviour == "raise":
                raise RuntimeError("handler %s fails" % h.token)

        if not h.is_async:
            def fn(*args, **kwargs):
                body(args, kwargs)
            return fn
        if self.fwname == "tx":
            from twisted.internet import defer

            def fn(*args, **kwargs):
                try:
                    body(args, kwargs)
                except Exception:
                    return defer.fail()
                return defer.succeed(None)
            return fn

        # asyncio: the invocation (the call of the handler) is recorded at once; what the
        # coroutine does later (raising) runs as a task after the dispatch
        def afn(*args, **kwargs):
            err = None
            try:
                body(args, kwargs)
            except Exception as e:  # noqa
                err = e

            async def rest():
                if err is not None:
                    raise err
            return rest()
        return afn

    # --- actions ----------------------------------------------------------------------------------------------
    def actions(self):
        acts = self.base_actions()
        if not self.t.attached or self.violated:
            return acts
        if self.ops_left > 0:
            acts.append((3.0, "subscribe", self.op_subscribe))
            if any(h.active for h in self.handlers):
                acts.append((2.0, "unsubscribe", self.op_unsubscribe))
        if self.pending_subs or self.pending_unsubs:
            acts.append((4.0, "router-reply", self.router_reply))
        waiting = [r for r in self.pending_unsubs if self.unsub_futs.get(r) is not None]
        if waiting and self.ops_left > 0:
            acts.append((0.8, "app-gives-up-waiting", lambda: self.give_up_waiting(waiting)))
        waiting_subs = [r for r, h in self.pending_subs.items() if getattr(h, "fut", None) is not None and not getattr(h, "gave_up", False)]
        if waiting_subs and self.ops_left > 0:
            acts.append((0.8, "app-gives-up-waiting-for-SUBSCRIBED", lambda: self.give_up_subscribing(waiting_subs)))
        if any(self.router_active.values()) or self.model:
            acts.append((4.0, "event", self.router_event))
        if self.ops_left > 0:
            acts.append((0.4, "event-never-held", self.router_event_unknown))
        return acts

    def give_up_waiting(self, waiting):
        """the application stops waiting for an UNSUBSCRIBED (a timeout around `await sub.unsubscribe()`, a cancelled
        task): it cancels the pending result.  The router's reply still arrives later and must be harmless."""
        rid = self.run.ch.pick(sorted(waiting), "which-wait")
        f = self.unsub_futs.pop(rid)
        self.ops_left -= 1
        self.run.fault("unsubscribe-wait-cancelled")
        try:
            self.fw.call(self, self.fw.cancel_future, f)
        except Exception as e:  # noqa
            self.run.log("cancel-raised", type(e).__name__)
        self.settle()

    def give_up_subscribing(self, waiting):
        """the application stops waiting for a SUBSCRIBED (timeout, cancelled task) and cancels the pending result: it
        never gets a Subscription, so its handler is not attached - whatever the router answers later.  (It may well
        subscribe again: the router then names the same subscription id.)"""
        rid = self.run.ch.pick(sorted(waiting), "which-sub-wait")
        h = self.pending_subs[rid]
        h.gave_up = True
        self.ops_left -= 1
        self.run.fault("subscribe-wait-cancelled")
        try:
            self.fw.call(self, self.fw.cancel_future, h.fut)
        except Exception as e:  # noqa
            self.run.log("cancel-raised", type(e).__name__)
        self.settle()

    def new_tok(self):
        self.tok += 1
        return "h%d" % self.tok

    def op_subscribe(self):
        ch = self.run.ch
        self.ops_left -= 1
        from autobahn.wamp import types
        topics = ["com.ex.t1", "com.ex.t2", "com.ex.t3"]
        if ch.flag("decorated-object", 0.15):
            return self.op_subscribe_object()
        topic = ch.pick(topics, "topic", (5, 2, 1))
        h = H(self.new_tok(), topic, ch.pick(("ok", "raise", "unsub-self", "unsub-next", "unsub-prev"), "behaviour", (6, 2, 2, 1, 1)),
              ch.flag("details", 0.3), ch.flag("async", 0.3))
        self.handlers.append(h)
        n0 = len(self.t.sent)
        opts = types.SubscribeOptions(details_arg="details") if h.details else None
        # what the application does the moment its subscribe() result arrives (on Twisted that is synchronously, inside
        # the session's processing of SUBSCRIBED): nothing / swap handlers (unsubscribe an older handler of the same
        # subscription) / drop the new handler again at once
        h.cont = ch.pick(("none", "unsub-other", "unsub-self"), "on-subscribed", (8, 1, 1))
        fut = self.call(self.session.subscribe, self.make_fn(h), topic, opts)
        h.fut = fut
        if h.cont != "none":
            import txaio

            def on_subscribed(sub, h=h):
                self.subscribe_continuation(h, sub)
                return sub
            txaio.add_callbacks(fut, on_subscribed, None)
        h.w = self.fw.watch(fut)
        self.settle()
        new = self.t.sent[n0:]
        if len(new) != 1 or not isinstance(new[0], self.M.Subscribe):
            self.run.violate("C11.exact-fanout", "subscribe-sent:%d" % len(new), "")
            return
        self.pending_subs[new[0].request] = h
        self.run.log("app", "subscribe", h.token, topic, h.behaviour, h.details, h.is_async)

    def attach(self, h, sid, sub):
        """model: from the moment its subscribe() result is there, the handler is attached"""
        if getattr(h, "attached", False):
            return
        h.attached = True
        self.router_active[sid] = True
        self.ever_held.add(sid)
        h.sid = sid
        h.active = True
        h.sub = sub
        self.model.setdefault(sid, []).append(h)

    def subscribe_continuation(self, h, sub):
        sid = getattr(sub, "id", None)
        if sid is None or getattr(h, "gave_up", False):
            return
        self.attach(h, sid, sub)
        self.run.probe("app-acts-on-subscribe-result:" + h.cont)
        target = h
        if h.cont == "unsub-other":
            others = [x for x in self.model.get(sid, []) if x is not h]
            if not others:
                return
            target = others[0]
        mut = getattr(self, "dispatch_mutated", False)
        self.unsubscribe(target, inside=True)
        self.dispatch_mutated = mut

    def op_subscribe_object(self):
        """subscribe(obj[, options]): one SUBSCRIBE per decorated method.  The class is defined once per run and may be
        subscribed several times (several instances), the first time without options, later with options that ask for
        event details: every call is judged by the options it was given."""
        from autobahn import wamp
        from autobahn.wamp import types
        world = self
        if getattr(self, "ObjClass", None) is None:
            class Obj:
                def __init__(self, hs):
                    self.hs = hs

                @wamp.subscribe("com.ex.t1")
                def on_t1(self, *a, **k):
                    world.invocations.append((world.event_no, self.hs[0].token))
                    self.hs[0].calls.append((world.event_no, tuple(jsonish(list(a))), {x: y for x, y in k.items() if x != "details"},
                                             k.get('details')))

                @wamp.subscribe("com.ex.obj")
                def on_obj(self, *a, **k):
                    world.invocations.append((world.event_no, self.hs[1].token))
                    self.hs[1].calls.append((world.event_no, tuple(jsonish(list(a))), {x: y for x, y in k.items() if x != "details"},
                                             k.get('details')))
            self.ObjClass = Obj
            self.obj_subscribes = 0
        with_details = self.obj_subscribes > 0 and self.run.ch.flag("object-subscribed-again-with-details", 0.6)
        self.obj_subscribes += 1
        toks = [self.new_tok(), self.new_tok()]
        hs = [H(toks[0], "com.ex.t1", "ok", with_details, False), H(toks[1], "com.ex.obj", "ok", with_details, False)]
        obj = self.ObjClass(hs)
        self.objs.append(obj)
        n0 = len(self.t.sent)
        if with_details:
            self.run.probe("decorated-object-subscribed-again-with-options")
            fut = self.call(self.session.subscribe, obj, None, types.SubscribeOptions(details_arg="details"))
        else:
            fut = self.call(self.session.subscribe, obj)
        self.settle()
        new = self.t.sent[n0:]
        if len(new) != 2:
            self.run.violate("C11.exact-fanout", "decorated-object-subscribes:%d" % len(new), "")
            return
        w = self.fw.watch(fut)
        by_topic = {m.topic: m for m in new}
        for h in hs:
            h.gather = w
            h.from_object = True
            h.obj = obj
            self.handlers.append(h)
            self.pending_subs[by_topic[h.topic].request] = h
        self.run.probe("decorated-object")

    def op_unsubscribe(self):
        ch = self.run.ch
        self.ops_left -= 1
        act = [h for h in self.handlers if h.active]
        h = ch.pick(act, "which")
        self.unsubscribe(h, inside=False)
        self.settle()

    def unsubscribe(self, h, inside):
        if not h.active:
            return
        lst = self.model[h.sid]
        last = len(lst) == 1
        n0 = len(self.t.sent)
        self.run.log("app", "unsubscribe", h.token, inside)
        if inside:
            self.run.probe("unsubscribe-inside-handler")
            self.dispatch_mutated = True
        fut = None
        try:
            if inside:
                fut = h.sub.unsubscribe()
            else:
                fut = self.call(h.sub.unsubscribe)
        except Exception as e:  # noqa
            self.run.violate("C11.unsubscribe-on-last", "unsubscribe-raised:%s" % type(e).__name__, repr(e))
            return
        h.active = False
        h.unsub_returned = True
        lst.remove(h)
        new = self.t.sent[n0:]
        unsubs = [m for m in new if isinstance(m, self.M.Unsubscribe)]
        if last:
            if len(unsubs) != 1 or unsubs[0].subscription != h.sid:
                self.run.violate("C11.unsubscribe-on-last", "no-UNSUBSCRIBE-for-last-handler", "%d" % len(unsubs))
            else:
                self.pending_unsubs[unsubs[0].request] = h.sid
                self.unsub_futs[unsubs[0].request] = fut
                self.router_active[h.sid] = False
                for t, s in list(self.router_subs.items()):
                    if s == h.sid:
                        del self.router_subs[t]
        elif unsubs:
            self.run.violate("C11.unsubscribe-on-last", "UNSUBSCRIBE-while-handlers-remain", "%d handlers left" % (len(lst)))

    def router_reply(self):
        ch = self.run.ch
        M = self.M
        ids = sorted(self.pending_subs) + sorted(self.pending_unsubs)
        rid = ch.pick(ids, "which")
        if rid in self.pending_subs:
            h = self.pending_subs.pop(rid)
            if ch.flag("sub-error", 0.12):
                exc = self.deliver(M.Error(32, rid, "wamp.error.not_authorized"))
                self.settle()
                if exc is not None:
                    self.run.violate("C11.isolation", "legal-error-raised:%s" % type(exc).__name__, repr(exc))
                return
            key = h.topic
            sid = self.router_subs.get(key)
            if sid is None:
                self.next_id += 1
                sid = self.next_id
                self.router_subs[key] = sid
            exc = self.deliver(M.Subscribed(rid, sid))
            self.settle()
            if exc is not None:
                self.run.violate("C11.isolation", "legal-reply-raised:%s" % type(exc).__name__, repr(exc))
                return
            if getattr(h, "gave_up", False):
                # the late reply to a request the application has given up on: nothing is attached by it (the scripted
                # router sends no EVENT on the strength of this subscription alone)
                self.run.probe("late-SUBSCRIBED-for-abandoned-request")
                return
            if getattr(h, "attached", False):
                # (the application's continuation on the subscribe() result has run already)
                return
            self.attach(h, sid, None)
            if getattr(h, "from_object", False):
                st = h.gather.state()
                if st[0] == "ok":
                    for s in st[1]:
                        if getattr(s, "topic", None) == h.topic:
                            h.sub = s
                if h.sub is None:
                    # the gather future completes when all members are subscribed: look the
                    # Subscription up by handler identity instead
                    for s in self.session._subscriptions.get(sid, []):
                        if s.handler.obj is getattr(h, "obj", None) and s.topic == h.topic:
                            h.sub = s
            else:
                st = h.w.state()
                if st[0] != "ok":
                    self.run.violate("C11.exact-fanout", "subscribe-future-not-resolved", repr(st[0]))
                    h.active = False
                    self.model[sid].remove(h)
                    return
                h.sub = st[1]
            if len(self.model[sid]) > 1:
                self.run.probe("several-handlers-on-one-id")
        else:
            sid = self.pending_unsubs.pop(rid)
            if ch.flag("unsubscribe-refused", 0.15):
                # the router refuses the UNSUBSCRIBE (ERROR): for the router the session stays subscribed - events keep
                # coming (no handler is attached any more: dropped silently), and a later subscribe() to the topic is
                # answered with the same subscription id
                self.run.fault("unsubscribe-refused-by-router")
                self.router_active[sid] = True
                for h in self.handlers:
                    if h.sid == sid:
                        self.router_subs.setdefault(h.topic, sid)
                exc = self.deliver(M.Error(34, rid, "wamp.error.not_authorized"))
                self.settle()
                if exc is not None:
                    self.run.violate("C11.isolation", "legal-error-raised:%s" % type(exc).__name__, repr(exc))
                return
            exc = self.deliver(M.Unsubscribed(rid))
            self.settle()
            if exc is not None:
                self.run.violate("C11.isolation", "legal-reply-raised:%s" % type(exc).__name__, repr(exc))

    def router_event(self):
        ch = self.run.ch
        M = self.M
        # candidates: ids the router regards as subscribed, plus ids in the racing window
        racing = [sid for sid in self.pending_unsubs.values()]
        live = [sid for sid, a in self.router_active.items() if a]
        cands = live + racing
        if not cands:
            return
        sid = ch.pick(cands, "sid", [3] * len(live) + [1] * len(racing))
        args, kwargs = ch.pick(ARGSETS, "args")
        self.next_id += 1
        pub = self.next_id
        self.event_no += 1
        expected = list(self.model.get(sid, []))
        is_race = sid in racing and not self.model.get(sid)
        if is_race:
            self.run.probe("event-in-unsubscribe-race")
        msg = M.Event(sid, pub, args=list(args) or None, kwargs=dict(kwargs) or None, publisher=4711,
                      topic=None)
        n_before = len(self.invocations)
        self.dispatch_mutated = False
        exc = self.deliver(msg)
        self.settle()
        got = [tok for ev, tok in self.invocations[n_before:]]
        exp = [h.token for h in expected]
        if exc is not None:
            self.run.violate("C11.isolation" if expected else "C11.race-silent", "event-raised:%s" % type(exc).__name__, repr(exc))
            return
        if self.dispatch_mutated:
            # handlers unsubscribed during this dispatch: those removed before their turn may or may
            # not run; everything else must run exactly once, in order
            removed = [h.token for h in expected if not h.active]
            must = [t for t in exp if t not in removed or t in got[:1]]
            stable = [t for t in exp if t not in removed]
            got_stable = [t for t in got if t not in removed]
            if got_stable != stable:
                self.run.violate("C11.exact-fanout", "handler-skipped-after-unsubscribe-in-dispatch",
                                 "attached %r, invoked %r, removed during dispatch %r" % (exp, got, removed))
            if len(set(got)) != len(got):
                self.run.violate("C11.exact-fanout", "handler-invoked-twice", repr(got))
        elif got != exp:
            what = "missing" if len(got) < len(exp) else ("extra" if len(got) > len(exp) else "order")
            self.run.violate("C11.exact-fanout", "fanout-%s" % what, "attached %r, invoked %r" % (exp, got))
        # payload and details
        ea, ek = tuple(jsonish(list(args))), jsonish(kwargs)
        for h in expected:
            for (evno, a, k, d) in h.calls:
                if evno != self.event_no:
                    continue
                if a != ea or jsonish(k) != ek:
                    self.run.violate("C11.exact-fanout", "payload-differs", "%s got %r %r expected %r %r" % (h.token, a, k, ea, ek))
                if h.details:
                    if d is None or d.publication != pub or d.publisher != 4711 or d.subscription is not h.sub:
                        self.run.violate("C11.exact-fanout", "details-wrong", h.token)
                elif d is not None:
                    self.run.violate("C11.exact-fanout", "details-not-requested", h.token)
        if any(h.behaviour == "raise" for h in expected):
            self.run.probe("raising-handler-in-fanout")

    def router_event_unknown(self):
        M = self.M
        self.ops_left -= 1
        sid = 123456789
        self.event_no += 1
        exc = self.deliver(M.Event(sid, 1, args=[1]))
        self.settle()
        from autobahn.wamp.exception import ProtocolError
        if not isinstance(exc, ProtocolError):
            self.run.violate("C11.never-held-violation", "event-for-unknown-id:%s" % (type(exc).__name__ if exc else "accepted"), "")
        self.run.probe("event-never-held")
        self.violated = True

    def check_step(self):
        SessionWorld.check_step(self)
        for where, exc in self.escaped:
            from worlds.ws import exc_site
            self.run.violate("C11.isolation", "exception:%s:%s:%s" % (where, type(exc).__name__, exc_site(exc)), repr(exc))
        self.escaped = []

    def nontrivial(self):
        return self.event_no >= 1 and len(self.invocations) >= 1

    def sample(self):
        return {"config": self.cfg, "handlers": [{"token": h.token, "topic": h.topic, "behaviour": h.behaviour, "sid": h.sid,
                                                  "calls": len(h.calls)} for h in self.handlers][:12]}
