"""
C06 - WAMP sessions end cleanly on every path and leave nothing pending.

Session world.  The router follows the WAMP session state machine (CHALLENGE* then WELCOME or
ABORT, later GOODBYE from either side) plus at most one illegal message; the application calls
leave()/disconnect() and API methods at any point; user callbacks return, raise or stay pending;
the transport may be lost at every position.
"""

import txaio

from worlds.wamp import SERIALIZERS, SessionWorld, StubTransport, session_classes

PROP = "C06"
MAX_STEPS = 70
MODES = ["clean", "cut", "cut", "clean", "cut", "rejoin"]

CB_ORDER = {"connect": 0, "join": 1, "leave": 2, "disconnect": 3}


def World(run, mode="clean"):
    return RejoinWorld(run) if mode == "rejoin" else MainWorld(run, mode)


class MainWorld(SessionWorld):
    PROP = PROP

    def __init__(self, run, mode="clean"):
        SessionWorld.__init__(self, run)
        self.mode = mode
        self.cbs = []  # user-callback names in order
        self.obs = []  # observer names in order
        self.router_state = "init"
        self.futs = []  # (kind, watcher, phase_at_call)
        self.pending_user = []  # futures handed out by user callbacks
        self.goodbyes_sent = 0
        self.router_goodbye_sent = False
        self.session_goodbye_first = None
        self.illegal_done = False
        self.joined = False
        self.ended = False  # session ended (goodbye exchange / abort / transport loss)
        self.router_aborted = False
        self.client_aborted = False
        self.ops_left = 0
        self.violated = False
        self.after_end_checked = 0
        self.auth_seen = 0
        self.transport_gone_at = None
        self.answered = set()

    # --- build ------------------------------------------------------------------------------------------
    def build(self):
        ch = self.run.ch
        self.make_reactor()
        fwamp = session_classes()
        from autobahn.wamp import message
        from autobahn.wamp.types import ComponentConfig
        self.M = message
        cfg = self.cfg = {
            "serializer": ch.pick(SERIALIZERS, "serializer"),
            "variant": ch.pick(("appsession", "appsession-overrides", "new-api-session"), "variant", (3, 3, 2)),
            "send_after_close": ch.pick(("raise", "drop"), "send-after-close"),
            "nchallenge": ch.pick((0, 1, 2), "nchallenge", (5, 2, 1)),
            "outcome": ch.pick(("welcome", "abort"), "outcome", (5, 1)),
        }
        beh = {}
        for name in ("onConnect", "onChallenge", "onWelcome", "onJoin", "onLeave", "onDisconnect"):
            beh[name] = ch.pick(("return", "raise", "pending"), "beh:" + name, (7, 1.2, 1.2))
        for name in ("connect", "join", "ready", "leave", "disconnect"):
            beh["obs:" + name] = ch.pick(("return", "raise", "pending"), "obs:" + name, (8, 1, 1))
        # user code may call back into the session from inside a callback, before it calls up
        beh["reenter:onLeave"] = ch.pick((None, "leave", "disconnect"), "reenter:onLeave", (6, 2, 1))
        beh["reenter:onJoin"] = ch.pick((None, "leave"), "reenter:onJoin", (7, 1))
        cfg["beh"] = beh
        self.t = StubTransport(self, cfg["serializer"], cfg["send_after_close"])
        world = self

        def user_cb(name, sup):
            """behaviour of an overridden callback: record, then per drawn behaviour"""
            def run_cb(*a, **k):
                world.cbs.append(name)
                world.run.log("user-cb", name)
                b = beh[name]
                re = beh.get("reenter:" + name)
                if re:
                    # e.g. an onLeave() that makes sure the session is being left, whoever started it
                    world.run.probe("reentrant-%s-in-%s" % (re, name))
                    try:
                        getattr(world.session, re)()
                    except Exception as e:  # noqa
                        world.run.log("reentrant-api-raised", name, re, type(e).__name__)
                # the override calls up first (the library's own work for this callback happens),
                # then the user's own code fails or keeps the callback pending
                res = sup(*a, **k)
                if b == "raise":
                    world.run.probe("user-callback-raises")
                    raise RuntimeError("user %s fails" % name)
                if b == "pending" and name != "onChallenge":
                    f = world.fw.new_future(world)
                    world.pending_user.append((name, f))
                    world.run.probe("user-callback-pending")
                    return f
                return res
            return run_cb

        if cfg["variant"] == "new-api-session":
            Base = fwamp.Session

            class S(Base):
                def on_connect(self):
                    return user_cb("onConnect", lambda: Base.on_connect(self))()

                def on_join(self, details):
                    return user_cb("onJoin", lambda d: Base.on_join(self, d))(details)

                def on_leave(self, details):
                    return user_cb("onLeave", lambda d: Base.on_leave(self, d))(details)

                def on_disconnect(self):
                    return user_cb("onDisconnect", lambda: Base.on_disconnect(self))()
        else:
            Base = fwamp.ApplicationSession
            overrides = cfg["variant"] == "appsession-overrides"

            class S(Base):
                def onConnect(self):
                    if overrides:
                        return user_cb("onConnect", lambda: Base.onConnect(self))()
                    world.cbs.append("onConnect")
                    return Base.onConnect(self)

                def onChallenge(self, challenge):
                    world.cbs.append("onChallenge")
                    if beh["onChallenge"] == "raise":
                        raise RuntimeError("no credentials")
                    if beh["onChallenge"] == "pending":
                        # the signature is computed asynchronously (a key store, a user prompt): it arrives - or fails -
                        # later, possibly after the connection has gone
                        f = world.fw.new_future(world)
                        world.pending_user.append(("onChallenge", f))
                        world.run.probe("onChallenge-pending")
                        return f
                    return "signature-%d" % len([c for c in world.cbs if c == "onChallenge"])

                def onWelcome(self, msg):
                    if overrides:
                        return user_cb("onWelcome", lambda m: Base.onWelcome(self, m))(msg)
                    return Base.onWelcome(self, msg)

                def onJoin(self, details):
                    if overrides:
                        return user_cb("onJoin", lambda d: Base.onJoin(self, d))(details)
                    world.cbs.append("onJoin")
                    return Base.onJoin(self, details)

                def onLeave(self, details):
                    if overrides:
                        return user_cb("onLeave", lambda d: Base.onLeave(self, d))(details)
                    world.cbs.append("onLeave")
                    return Base.onLeave(self, details)

                def onDisconnect(self):
                    if overrides:
                        return user_cb("onDisconnect", lambda: Base.onDisconnect(self))()
                    world.cbs.append("onDisconnect")
                    return Base.onDisconnect(self)
        self.session = S(ComponentConfig(realm="realm1"))
        if cfg["variant"] == "new-api-session" and cfg["nchallenge"]:
            cfg["nchallenge"] = 0  # (authenticators are C19 territory)
        for name in ("connect", "join", "ready", "leave", "disconnect"):
            self.session.on(name, self.make_observer(name))
        self.run.log("cfg", cfg["variant"], cfg["serializer"], cfg["nchallenge"], cfg["outcome"], sorted(beh.items()), self.mode)
        self.ops_left = 2 + ch.choose(8, "nops")
        self.illegal_at = ch.choose(12, "illegal-at") if ch.flag("illegal-message", 0.25) else None
        self.router_steps = 0
        self.call(self.session.onOpen, self.t)
        self.settle()
        self.router_state = "hello-wait"
        self.challenges_left = cfg["nchallenge"]

    def make_observer(self, name):
        def obs(*a, **k):
            self.obs.append(name)
            self.run.log("observer", name)
            b = self.cfg["beh"]["obs:" + name]
            if b == "raise":
                raise RuntimeError("observer %s fails" % name)
            if b == "pending":
                f = self.fw.new_future(self)
                self.pending_user.append(("obs:" + name, f))
                return f
        return obs

    def on_send_attempt(self, msg):
        if isinstance(msg, self.M.Goodbye):
            self.goodbye_attempts = getattr(self, "goodbye_attempts", 0) + 1
        elif isinstance(msg, self.M.Abort):
            # the client itself gives the session up (its onChallenge() failed): the same situation whether or not the
            # ABORT still gets out through a transport that is closing already
            self.client_aborted = True

    def on_sent(self, msg):
        M = self.M
        if isinstance(msg, M.Goodbye):
            self.goodbyes_sent += 1
            if self.session_goodbye_first is None:
                self.session_goodbye_first = not self.router_goodbye_sent
        elif isinstance(msg, M.Abort):
            self.client_aborted = True
        elif isinstance(msg, M.Authenticate):
            self.auth_seen += 1
        self.router_inbox.append(msg)

    # --- actions --------------------------------------------------------------------------------------------
    def actions(self):
        acts = self.base_actions()
        t = self.t
        if self.pending_user:
            acts.append((2.0, "resolve-user-future", self.resolve_user))
        if t.attached:
            if not self.violated:
                if t.closing is None and self.router_can_act():
                    acts.append((4.0, "router", self.router_act))
                if self.ops_left > 0:
                    acts.append((2.5, "app", self.app_act))
            if not self.violated and self.illegal_at is not None and not self.illegal_done and self.router_state == "goodbye-sent" \
                    and self.ended and self.session._session_id is None and not self.pending_user:
                # the session has ended, the transport is still there (closing or not): whatever still arrives - a GOODBYE
                # sent twice, a late EVENT or RESULT - belongs to no session and is a protocol violation
                acts.append((1.5, "router-message-after-session-end", self.router_illegal_after_end))
            if t.closing is not None or self.violated:
                acts.append((3.0, "transport-closed", lambda: self.lose(t.closing != "abort" and not self.violated)))
            elif self.mode == "cut":
                acts.append((0.5, "cut", lambda: self.lose(False)))
        elif self.ops_left > 0 and self.after_end_checked < 2:
            acts.append((1.0, "api-after-end", self.api_after_end))
        return acts

    def resolve_user(self):
        ch = self.run.ch
        name, f = self.pending_user.pop(ch.choose(len(self.pending_user), "which-user-future"))
        if ch.flag("fail-it", 0.3):
            self.call(self.fw.reject_future, f, RuntimeError("late failure in %s" % name))
        else:
            self.call(self.fw.resolve_future, f, "signature-late" if name == "onChallenge" else None)
        self.settle()

    def lose(self, was_clean):
        self.run.fault("transport-lost" if not was_clean else "transport-closed")
        self.transport_gone_at = self.run.steps
        if self.joined and not self.ended:
            self.ended = True
            self.end_cause = "transport-lost"
        self.transport_lost(was_clean)
        self.settle()

    def router_can_act(self):
        if self.router_state in ("hello-wait", "challenge-wait"):
            return self.hello_seen() and (self.router_state == "hello-wait" or self.auth_seen >= self.challenges_sent())
        if self.router_state == "established":
            return True
        if self.router_state == "goodbye-sent":
            return False
        return False

    def hello_seen(self):
        return any(isinstance(m, self.M.Hello) for m in self.t.sent)

    def challenges_sent(self):
        return self.cfg["nchallenge"] - self.challenges_left

    def router_act(self):
        ch = self.run.ch
        M = self.M
        from autobahn.wamp import role
        self.router_steps += 1
        if self.illegal_at is not None and not self.illegal_done and self.router_steps >= self.illegal_at // 3 + 1 \
                and ch.flag("now-illegal", 0.5):
            return self.router_illegal()
        st = self.router_state
        if st in ("hello-wait", "challenge-wait"):
            if self.challenges_left > 0:
                self.challenges_left -= 1
                self.router_state = "challenge-wait"
                self.expect_ok(M.Challenge("ticket", {"n": self.challenges_left}))
                return
            if self.cfg["outcome"] == "abort":
                self.router_aborted = True
                self.router_state = "closed"
                self.ended = True
                self.end_cause = "router-abort"
                self.expect_ok(M.Abort("wamp.error.not_authorized", "no"))
                return
            roles = {"broker": role.RoleBrokerFeatures(), "dealer": role.RoleDealerFeatures()}
            self.router_state = "established"
            self.welcome_step = self.run.steps
            self.expect_ok(M.Welcome(99001, roles, realm="realm1", authid="u", authrole="r", authmethod="ticket"))
            if self.cfg["beh"].get("onWelcome") == "raise" and self.cfg["variant"] == "appsession-overrides":
                # the client refuses the session (sends ABORT)
                self.router_state = "closed"
            if ch.flag("goodbye-right-after-welcome", 0.15):
                # both messages in one segment: no loop iteration in between
                self.run.probe("welcome+goodbye-same-segment")
                self.router_goodbye(settle_first=False)
            return
        if st == "established":
            # did the session say GOODBYE?  then answer it; else maybe say GOODBYE ourselves or answer a request
            sess_gb = any(isinstance(m, M.Goodbye) for m in self.router_inbox)
            if sess_gb and not self.router_goodbye_sent:
                return self.router_goodbye()
            what = ch.pick(("goodbye", "reply", "idle"), "router-what", (2, 4, 1))
            if what == "goodbye" and not self.router_goodbye_sent:
                return self.router_goodbye()
            if what == "reply":
                return self.router_reply()

    def router_goodbye(self, settle_first=True):
        M = self.M
        if settle_first:
            self.settle()
        replied_before = self.goodbyes_sent
        self.router_goodbye_sent = True
        self.router_state = "goodbye-sent"
        session_was_first = any(isinstance(m, M.Goodbye) for m in self.t.sent)
        joined_before = self.session._session_id is not None
        exc = self.deliver(M.Goodbye("wamp.close.normal" if session_was_first else "wamp.close.system_shutdown", "bye"))
        self.settle()
        if exc is not None:
            from worlds.ws import exc_site
            if self.client_aborted:
                # the client itself refused the session (ABORT sent): the crossing GOODBYE is moot
                self.violated = True
                return
            self.run.violate("C06.phase-gate", "legal-GOODBYE-rejected:%s:%s" % (type(exc).__name__, "joined" if joined_before else "welcome-not-yet-processed"),
                             "%r at %s" % (exc, exc_site(exc)))
            self.violated = True
            return
        if not self.ended:
            self.ended = True
            self.end_cause = "goodbye"
        # answered exactly when this side had not sent one
        if session_was_first:
            if self.goodbyes_sent != replied_before:
                self.run.violate("C06.goodbye-once", "answered-own-goodbye-again", "")
        else:
            if self.goodbyes_sent != replied_before + 1 and self.t.closing is None and self.t.attached:
                if not joined_before:
                    # WELCOME still being processed (user's onWelcome pending): the answer is owed
                    # once the session is established - judged at the end
                    self.goodbye_owed = True
                else:
                    self.run.violate("C06.goodbye-once", "peer-GOODBYE-not-answered", "sent %d" % (self.goodbyes_sent - replied_before))

    def router_reply(self):
        M = self.M
        # answer the oldest unanswered request, if any
        for m in self.router_inbox:
            rid = getattr(m, "request", None)
            if rid is None or rid in self.answered:
                continue
            if isinstance(m, M.Call):
                self.answered.add(rid)
                return self.expect_ok(M.Result(m.request, args=[1]))
            if isinstance(m, M.Subscribe):
                self.answered.add(rid)
                return self.expect_ok(M.Subscribed(m.request, 700 + m.request))
            if isinstance(m, M.Register):
                self.answered.add(rid)
                return self.expect_ok(M.Registered(m.request, 800 + m.request))
            if isinstance(m, M.Publish) and m.acknowledge:
                self.answered.add(rid)
                return self.expect_ok(M.Published(m.request, 900 + m.request))

    def expect_ok(self, msg):
        exc = self.deliver(msg)
        self.settle()
        if exc is not None:
            from worlds.ws import exc_site
            self.run.violate("C06.phase-gate", "legal-message-rejected:%s:%s" % (type(msg).__name__, type(exc).__name__),
                             "%r at %s" % (exc, exc_site(exc)))
            self.violated = True
        return exc

    def router_illegal(self):
        ch = self.run.ch
        M = self.M
        from autobahn.wamp import role
        self.illegal_done = True
        established = self.session._session_id is not None
        if established:
            msg = ch.pick((M.Welcome(5, {"broker": role.RoleBrokerFeatures()}), M.Challenge("ticket"), M.Abort("wamp.error.x"),
                           M.Hello("realm1", {"subscriber": role.RoleSubscriberFeatures()}), M.Authenticate("sig")), "illegal-after")
        else:
            if self.router_state in ("closed", "goodbye-sent"):
                return
            msg = ch.pick((M.Event(1, 2, args=[1]), M.Result(1, args=[1]), M.Goodbye(), M.Subscribed(1, 2), M.Invocation(1, 2),
                           M.Published(1, 2), M.Error(48, 1, "wamp.error.x"), M.Registered(1, 2), M.Interrupt(1)), "illegal-before")
            if self.router_state == "established":
                # WELCOME delivered but its continuation has not run yet (asyncio): the session is
                # in between; skip - the legal variant of this race is exercised separately
                return
        before = (tuple(self.cbs), tuple(self.obs), len(self.t.sent), self.session._session_id, self.snapshot())
        self.run.fault("illegal-message:" + type(msg).__name__)
        exc = self.deliver(msg)
        self.settle()
        from autobahn.wamp.exception import ProtocolError
        if not isinstance(exc, ProtocolError):
            self.run.violate("C06.phase-gate", "illegal-%s-%s:%s" % (type(msg).__name__, "after-join" if established else "before-join",
                                                                       type(exc).__name__ if exc else "accepted"), "")
        after = (tuple(self.cbs), tuple(self.obs), len(self.t.sent), self.session._session_id, self.snapshot())
        if before != after:
            self.run.violate("C06.phase-gate", "illegal-message-changed-state:%s" % type(msg).__name__, "%r -> %r" % (before, after))
        self.violated = True  # the real transports close the connection on a protocol violation

    def router_illegal_after_end(self):
        ch = self.run.ch
        M = self.M
        self.illegal_done = True
        msg = ch.pick((M.Goodbye("wamp.close.normal", "again"), M.Event(1, 2, args=[1]), M.Result(1, args=[1]), M.Published(1, 2)), "illegal-after-end")
        self.run.fault("illegal-message-after-session-end:" + type(msg).__name__)
        before = (tuple(self.cbs), tuple(self.obs), len(self.t.sent), self.session._session_id)
        exc = self.deliver(msg)
        self.settle()
        from autobahn.wamp.exception import ProtocolError
        if not isinstance(exc, ProtocolError):
            self.run.violate("C06.phase-gate", "illegal-%s-after-session-end:%s" % (type(msg).__name__, type(exc).__name__ if exc else "accepted"), "")
        after = (tuple(self.cbs), tuple(self.obs), len(self.t.sent), self.session._session_id)
        if before != after:
            self.run.violate("C06.phase-gate", "illegal-message-changed-state:%s:after-session-end" % type(msg).__name__, "%r -> %r" % (before, after))
        self.violated = True

    def app_act(self):
        ch = self.run.ch
        self.ops_left -= 1
        S = self.session
        from autobahn.wamp import types
        from autobahn.wamp.exception import TransportLost
        what = ch.pick(("leave", "disconnect", "call", "publish", "subscribe", "register", "join"), "app", (3, 1.5, 3, 1.5, 1.5, 1.5, 0.8))
        phase = "joined" if S._session_id is not None else ("ended" if self.ended else "pre")
        if what == "join" and phase != "joined":
            what = "call"
        if phase == "pre" and what not in ("leave", "disconnect"):
            # an application issues requests from onJoin on, not before the session exists
            what = "leave" if ch.flag("pre-leave") else "disconnect"
        self.run.log("app", what, S._session_id is not None)
        try:
            if what == "leave":
                self.call(S.leave)
            elif what == "disconnect":
                self.call(S.disconnect)
            elif what == "join":
                # a join() too many (or too early: the session is still there while its closing handshake runs) is
                # refused - and changes nothing
                self.run.probe("join-while-joined")
                self.call(S.join, "realm1")
            else:
                if what == "call":
                    f = self.call(S.call, "com.x.proc%d" % self.ops_left, 1)
                elif what == "publish":
                    f = self.call(lambda: S.publish("com.x.topic", 1, options=types.PublishOptions(acknowledge=True)))
                elif what == "subscribe":
                    f = self.call(S.subscribe, lambda *a: None, "com.x.topic%d" % self.ops_left)
                else:
                    f = self.call(S.register, lambda *a: None, "com.x.reg%d" % self.ops_left)
                if ch.flag("reentrant-errback", 0.2):
                    # the application reacts to the failure of this request by issuing another one from inside the
                    # errback (re-entrancy into the session while it is failing its outstanding requests)
                    def eb(fail, S=S):
                        self.run.probe("reentrant-request-from-errback")
                        try:
                            f2 = S.call("com.x.retry", 2)
                        except Exception as e:  # noqa
                            self.run.log("reentrant-raised", type(e).__name__)
                        else:
                            self.futs.append(("call", self.fw.watch(f2), "reentrant"))
                        return fail
                    txaio.add_callbacks(f, None, eb)
                # (some applications do not consume a failure in their callback but let it pass on: Twisted chains it)
                self.futs.append((what, self.fw.watch(f, passthrough=ch.flag("application-lets-failures-pass-on", 0.3)), phase))
                if phase == "joined":
                    self.run.probe("outstanding-request:" + what)
        except Exception as e:  # noqa
            self.run.log("app-raised", what, type(e).__name__)
            # documented synchronous failures: TransportLost (no transport), Disconnected/"not joined" style errors
        self.settle()

    def api_after_end(self):
        """The transport is gone: API calls must fail immediately with TransportLost."""
        self.after_end_checked += 1
        self.ops_left -= 1
        S = self.session
        from autobahn.wamp import types
        from autobahn.wamp.exception import TransportLost
        ch = self.run.ch
        what = ch.pick(("call", "publish", "subscribe", "register"), "after")
        try:
            if what == "call":
                f = self.call(S.call, "com.x.late", 1)
            elif what == "publish":
                f = self.call(lambda: S.publish("com.x.late", 1, options=types.PublishOptions(acknowledge=True)))
            elif what == "subscribe":
                f = self.call(S.subscribe, lambda *a: None, "com.x.late")
            else:
                f = self.call(S.register, lambda *a: None, "com.x.late")
        except TransportLost:
            self.run.probe("api-after-end-raises-TransportLost")
            return
        except Exception as e:  # noqa
            self.run.violate("C06.fail-fast-after", "api-after-end-raised-%s:%s" % (type(e).__name__, what), repr(e))
            return
        self.run.violate("C06.fail-fast-after", "api-after-end-returned:%s" % what, "")
        self.futs.append((what, self.fw.watch(f), "after"))

    # --- oracles ----------------------------------------------------------------------------------------------
    def snapshot(self):
        return tuple(w.state()[0] for _, w, _ in self.futs)

    def check_step(self):
        SessionWorld.check_step(self)
        run = self.run
        for where, exc in self.escaped:
            # an exception escaping a late continuation is not itself one of the stated clauses
            # (its consequences, if any, show up in the clauses below): counted, not judged
            run.probe("exception-escaped:%s" % type(exc).__name__)
        self.escaped = []
        if self.goodbyes_sent > 1 and not getattr(self, "_gb", False):
            self._gb = True
            run.violate("C06.goodbye-once", "GOODBYE-sent-x%d" % self.goodbyes_sent, "")
        if self.session._session_id is not None or "onJoin" in self.cbs or "join" in self.obs:
            self.joined = True
        self.check_order(self.cbs, {"onConnect": "connect", "onJoin": "join", "onLeave": "leave", "onDisconnect": "disconnect"}, "callbacks")
        self.check_order(self.obs, {"connect": "connect", "join": "join", "leave": "leave", "disconnect": "disconnect"}, "observers")

    def check_order(self, seq, mapping, what):
        if getattr(self, "_ord_" + what, False):
            return
        names = [mapping[x] for x in seq if x in mapping]
        seen = set()
        last = -1
        for n in names:
            if n in seen:
                setattr(self, "_ord_" + what, True)
                self.run.violate("C06.callback-order", "%s:%s-twice" % (what, n), repr(names))
                return
            seen.add(n)
            if CB_ORDER[n] < last:
                if what == "observers" and n == "leave" and self.cfg["beh"]["onLeave"] == "pending":
                    # 'leave' listeners fire when the user's own onLeave() completes; a user future that
                    # is still pending when the transport goes away delays them past 'disconnect'
                    continue
                setattr(self, "_ord_" + what, True)
                self.run.violate("C06.callback-order", "%s:%s-after-%s" % (what, n, [k for k, v in CB_ORDER.items() if v == last][0]), repr(names))
                return
            last = CB_ORDER[n]
        if names and names[0] != "connect" and "connect" in names:
            setattr(self, "_ord_" + what, True)
            self.run.violate("C06.callback-order", "%s:connect-not-first" % what, repr(names))

    def drain(self):
        self.draining = True
        # resolve what user callbacks left pending, let closing transports finish
        guard = 0
        while guard < 50:
            guard += 1
            self.settle()
            if self.pending_user:
                name, f = self.pending_user.pop(0)
                self.call(self.fw.resolve_future, f, None)
                continue
            if self.t.attached and (self.t.closing is not None or self.violated):
                self.lose(self.t.closing != "abort" and not self.violated)
                continue
            break
        self.settle()

    def final(self):
        run = self.run
        self.check_step()
        cbs = [c for c in self.cbs]
        beh = self.cfg["beh"]
        user_raises = any(v == "raise" for k, v in beh.items())
        gone = not self.t.attached
        # leave fired exactly when a joined session ended or the router aborted
        left = "onLeave" in cbs
        if self.joined and self.ended and gone and not left:
            run.violate("C06.callback-order", "no-leave-for-ended-joined-session:%s" % getattr(self, "end_cause", "?"), repr(cbs))
        if self.router_aborted and not left and not self.violated:
            run.violate("C06.callback-order", "no-leave-after-router-ABORT", repr(cbs))
        # ... and so does the 'leave' event for the listeners, once the application's own onLeave() has returned normally
        if self.joined and self.ended and gone and left and not self.violated and beh.get("onLeave") == "return" \
                and not beh.get("reenter:onLeave") and self.cfg["variant"] != "new-api-session" and "join" in self.obs \
                and "leave" not in self.obs:
            run.violate("C06.callback-order", "no-leave-event-for-ended-joined-session:%s" % getattr(self, "end_cause", "?"), repr(self.obs))
        if left and not self.joined and not self.router_aborted and not self.client_aborted:
            run.violate("C06.callback-order", "leave-without-join-or-abort", repr(cbs))
        if gone:
            if "onDisconnect" not in cbs:
                run.violate("C06.callback-order", "no-disconnect-after-transport-gone", repr(cbs))
            # nothing pending
            for what, w, phase in self.futs:
                st = w.state()
                if st[0] == "pending":
                    run.violate("C06.nothing-pending", "pending-after-transport-gone:%s:%s" % (self.cfg["variant"], phase),
                                "%s issued while %s" % (what, phase))
                    break
            for what, w, phase in self.futs:
                st = w.state()
                if st[0] == "ok" and phase in ("ended", "pre"):
                    run.violate("C06.fail-fast-after", "request-issued-outside-session-succeeded:%s" % phase, what)
                    break
        if getattr(self, "goodbye_owed", False) and self.joined and getattr(self, "goodbye_attempts", 0) == 0 and not self.client_aborted \
                and getattr(self, "end_cause", None) == "goodbye":
            run.violate("C06.goodbye-once", "peer-GOODBYE-never-answered", "")
        run.probe("end:" + ("gone" if gone else "attached"))

    def nontrivial(self):
        return self.joined or self.router_aborted or self.ended

    def sample(self):
        return {"config": {k: (v if k != "beh" else {a: b for a, b in v.items() if b != "return"}) for k, v in self.cfg.items()},
                "callbacks": self.cbs, "observers": self.obs, "mode": self.mode}


class RejoinWorld(SessionWorld):
    """Several sessions one after the other on ONE transport connection: the application's onLeave() does not
    disconnect, the application joins again (from inside onLeave() or later).  Each session is judged on its own:
    HELLO on join(), one onJoin / onLeave per session, GOODBYE at most once per session, a router GOODBYE answered
    exactly when this side had not started closing *this* session, a leave() on a joined session sends its GOODBYE."""

    PROP = PROP

    def __init__(self, run):
        SessionWorld.__init__(self, run)
        self.mode = "rejoin"
        self.epoch = 0
        self.state = "init"  # per epoch: hello-wait / joined / ended
        self.ep = None
        self.violated = False

    def new_epoch(self):
        self.epoch += 1
        self.ep = {"n": self.epoch, "goodbyes": 0, "router_goodbye": False, "session_first": None, "joins": 0, "leaves": 0,
                   "futs": [], "hello": 0, "leave_called": False}

    def build(self):
        ch = self.run.ch
        self.make_reactor()
        fwamp = session_classes()
        from autobahn.wamp import message
        from autobahn.wamp.types import ComponentConfig
        self.M = message
        cfg = self.cfg = {"serializer": ch.pick(SERIALIZERS, "serializer"), "sessions": 2 + ch.choose(2, "nsessions"),
                          "rejoin_in_onLeave": ch.flag("rejoin-from-inside-onLeave", 0.4)}
        self.t = StubTransport(self, cfg["serializer"], "raise")
        world = self
        Base = fwamp.ApplicationSession

        class S(Base):
            def onJoin(self, details):
                world.ep["joins"] += 1
                world.run.log("user-cb", "onJoin", world.epoch)

            def onLeave(self, details):
                # (no call up: the default would disconnect the transport; this application keeps it and joins again)
                world.ep["leaves"] += 1
                world.run.log("user-cb", "onLeave", world.epoch, details.reason)
                world.state = "ended"
                if cfg["rejoin_in_onLeave"] and world.epoch < cfg["sessions"]:
                    world.rejoin(inside=True)

            def onDisconnect(self):
                world.run.log("user-cb", "onDisconnect")
        self.session = S(ComponentConfig(realm="realm1"))
        self.run.log("cfg", "rejoin", sorted(cfg.items()))
        self.new_epoch()
        self.call(self.session.onOpen, self.t)
        self.settle()
        self.state = "hello-wait"
        self.ops_left = 3 + ch.choose(8, "nops")

    def on_sent(self, msg):
        M = self.M
        if isinstance(msg, M.Goodbye):
            self.ep["goodbyes"] += 1
            if self.ep["session_first"] is None:
                self.ep["session_first"] = not self.ep["router_goodbye"]
            if self.ep["goodbyes"] > 1:
                self.run.violate("C06.goodbye-once", "GOODBYE-sent-x%d:session-%d-on-this-transport" % (self.ep["goodbyes"], min(self.epoch, 3)), "")
        elif isinstance(msg, M.Hello):
            self.ep["hello"] += 1
        self.router_inbox.append(msg)

    def rejoin(self, inside=False):
        self.run.probe("rejoin-on-the-same-transport" + (":from-onLeave" if inside else ""))
        prev = self.ep
        self.new_epoch()
        self.state = "hello-wait"
        n0 = len(self.t.sent)
        try:
            if inside:
                self.session.join("realm1")
            else:
                self.call(self.session.join, "realm1")
        except Exception as e:  # noqa
            self.run.violate("C06.callback-order", "join-after-ended-session-raised:%s" % type(e).__name__, repr(e))
            self.violated = True
            return
        if not any(isinstance(m, self.M.Hello) for m in self.t.sent[n0:]):
            self.run.violate("C06.callback-order", "join-after-ended-session-sent-no-HELLO", "")
            self.violated = True

    def actions(self):
        acts = self.base_actions()
        if self.violated or not self.t.attached or self.t.closing is not None:
            return acts
        if self.state == "hello-wait":
            acts.append((4.0, "router-welcome", self.router_welcome))
        elif self.state == "joined":
            if not self.ep["router_goodbye"]:
                acts.append((2.0, "router-goodbye", self.router_goodbye))
            if self.ops_left > 0:
                acts.append((2.0, "app-leave", self.app_leave))
                acts.append((2.0, "app-call", self.app_call))
        elif self.state == "ended" and self.epoch < self.cfg["sessions"] and not self.cfg["rejoin_in_onLeave"]:
            acts.append((3.0, "app-joins-again", lambda: (self.rejoin(), self.settle())))
        return acts

    def router_welcome(self):
        from autobahn.wamp import role
        roles = {"broker": role.RoleBrokerFeatures(), "dealer": role.RoleDealerFeatures()}
        exc = self.deliver(self.M.Welcome(99000 + self.epoch, roles, realm="realm1", authid="u", authrole="r", authmethod="anonymous"))
        self.settle()
        if exc is not None:
            self.run.violate("C06.phase-gate", "legal-message-rejected:Welcome:%s:session-%d" % (type(exc).__name__, min(self.epoch, 3)), repr(exc))
            self.violated = True
            return
        self.state = "joined"
        if self.ep["joins"] != 1:
            self.run.violate("C06.callback-order", "onJoin-x%d-after-WELCOME:session-%d" % (self.ep["joins"], min(self.epoch, 3)), "")

    def app_call(self):
        self.ops_left -= 1
        try:
            f = self.call(self.session.call, "com.example.p%d" % self.ops_left, 1)
        except Exception as e:  # noqa
            self.run.violate("C06.fail-fast-after", "call-on-joined-session-raised:%s:session-%d" % (type(e).__name__, min(self.epoch, 3)), repr(e))
            return
        self.ep["futs"].append(self.fw.watch(f))
        self.settle()

    def app_leave(self):
        self.ops_left -= 1
        ep = self.ep
        before = ep["goodbyes"]
        had_router_goodbye = ep["router_goodbye"]
        self.run.log("app", "leave", self.epoch)
        try:
            self.call(self.session.leave)
        except Exception as e:  # noqa
            # (leave() on a session that is already being left is refused: fine)
            self.run.log("leave-raised", type(e).__name__)
            if not ep["leave_called"] and not had_router_goodbye and self.state == "joined":
                self.run.violate("C06.goodbye-once", "leave-on-joined-session-raised:%s:session-%d" % (type(e).__name__, min(self.epoch, 3)), repr(e))
            return
        self.settle()
        if not ep["leave_called"] and not had_router_goodbye and before == 0 and ep is self.ep and ep["goodbyes"] != 1:
            self.run.violate("C06.goodbye-once", "leave-on-joined-session-sent-no-GOODBYE:session-%d" % min(self.epoch, 3), "")
        ep["leave_called"] = True
        if ep["session_first"] and not ep["router_goodbye"]:
            self.state = "joined"  # (waiting for the router's reply: router-goodbye stays enabled)

    def router_goodbye(self):
        ep = self.ep
        ep["router_goodbye"] = True
        session_first = ep["goodbyes"] > 0
        before = ep["goodbyes"]
        futs = list(ep["futs"])
        exc = self.deliver(self.M.Goodbye("wamp.close.normal" if session_first else "wamp.close.system_shutdown", "bye"))
        self.settle()
        tag = "session-%d" % min(ep["n"], 3)
        if exc is not None:
            self.run.violate("C06.phase-gate", "legal-GOODBYE-rejected:%s:%s" % (type(exc).__name__, tag), repr(exc))
            self.violated = True
            return
        if session_first:
            if ep["goodbyes"] != before:
                self.run.violate("C06.goodbye-once", "answered-own-goodbye-again:%s" % tag, "")
        elif ep["goodbyes"] != before + 1:
            self.run.violate("C06.goodbye-once", "peer-GOODBYE-not-answered:%s" % tag, "sent %d" % (ep["goodbyes"] - before))
        if ep["leaves"] != 1:
            self.run.violate("C06.callback-order", "onLeave-x%d-after-goodbye-exchange:%s" % (ep["leaves"], tag), "")
        # (requests pending across a session end are not judged in this mode: failing them is the work of the default
        # onLeave(), which this application replaces in order to keep the transport - the main modes judge that clause)
        if ep is self.ep:
            self.state = "ended"

    def check_step(self):
        SessionWorld.check_step(self)
        for where, exc in self.escaped:
            self.run.probe("escaped-late:%s" % type(exc).__name__)
        self.escaped = []

    def final(self):
        self.check_step()
        if self.epoch >= 2 and self.ep["joins"]:
            self.run.probe("second-session-joined-on-the-same-transport")

    def nontrivial(self):
        return self.epoch >= 2

    def sample(self):
        return {"config": {k: repr(v) for k, v in self.cfg.items()}, "sessions": self.epoch, "state": self.state}
