"""
C13 - WAMP transports attach a session only after valid negotiation and fail closed.

Modes (see mode_for):
  rs-hs-server / rs-hs-client   RawSocket handshake octets vs a real endpoint (sweep of all 2^16
                                values of octets 1-2 is the batch prefix; reserved octets varied)
  ws-negotiate                  WebSocket subprotocol negotiation over pairs of serializer lists
  traffic                       real transport pair, stub sessions: message sequences of all 25 types
                                with sizes around the negotiated limits, both directions
  rs-limits                     RawSocket endpoint vs raw peer announcing every length exponent;
                                frames longer than the local maximum
  corrupt                       flipped frame type, garbage / truncated payload, out-of-phase
                                message, exception in session code
  xfw                           cross-framework pairing: the local real endpoint (this worker's framework)
                                against the real endpoint of the *other* framework in a helper interpreter
                                (sim/xpeer.py); handshake and traffic in both directions, all octets travel
                                under this worker's seeded segmentation
"""

import struct

from sim.core import SetupViolation, HarnessError, short
from sim.ref_ws import FrameParser, SenderMonitor, encode_frame
from worlds.stack import StackWorld, StubSession, make_ser
from worlds.ws import exc_site

PROP = "C13"
MAX_STEPS = 150

SER_NAMES = ("json", "msgpack", "cbor", "ubjson")
RS_ID = {"json": 1, "msgpack": 2, "cbor": 3, "ubjson": 4}
SWEEP_QUICK = 4096


class Opaque:
    """An application object no WAMP serializer knows."""


def mode_for(index, tier):
    n = 65536 if tier == "thorough" else SWEEP_QUICK
    if index < 2 * n:
        role = "rs-hs-server" if index % 2 == 0 else "rs-hs-client"
        k = index // 2
        value = k if n == 65536 else (k * 40503 + 977) % 65536
        # make sure the interesting region (magic octet 0x7f) is dense in the quick sample
        if n != 65536 and k % 4 == 0:
            value = 0x7F00 | (k // 4) % 256
        return [role, value]
    k = index % 12
    return ("ws-negotiate", "ws-negotiate", "traffic", "traffic", "traffic", "rs-limits", "corrupt", "corrupt", "rs-hs-server-gen",
            "rs-hs-client-gen", "xfw", "xfw")[k]


class World(StackWorld):
    PROP = PROP

    def __init__(self, run, mode="traffic"):
        StackWorld.__init__(self, run)
        self.mode = mode
        self.sessions = []
        self.todo = []
        self.peer_script = []

    def new_session(self, name):
        s = StubSession(self, name)
        self.sessions.append(s)
        return s

    # =====================================================================================================
    def build(self):
        self.make_reactor(0.0)
        m = self.mode
        self.cfg = {"mode": m if isinstance(m, str) else m[0]}
        name = self.cfg["mode"]
        if name.startswith("rs-hs-server"):
            self.build_rs_hs(True, m[1] if not isinstance(m, str) else None)
        elif name.startswith("rs-hs-client"):
            self.build_rs_hs(False, m[1] if not isinstance(m, str) else None)
        elif name == "ws-negotiate":
            self.build_ws_negotiate()
        elif name == "traffic":
            self.build_traffic()
        elif name == "rs-limits":
            self.build_rs_limits()
        elif name == "xfw":
            self.build_xfw()
        else:
            self.build_corrupt()
        self.run.log("cfg", sorted((k, repr(v)) for k, v in self.cfg.items()))

    # --- RawSocket handshake -------------------------------------------------------------------------------------
    def build_rs_hs(self, is_server, value):
        ch = self.run.ch
        cfg = self.cfg
        sers = [n for n in SER_NAMES if ch.flag("ser:" + n, 0.7)] or ["json"]
        cfg["sers"] = sers
        if value is None:
            o1 = ch.pick((0x7F, 0x7F, 0x7F, 0x00, 0x7E, 0xFF, 0x47), "octet1")
            o2 = ch.choose(256, "octet2")
        else:
            o1, o2 = value >> 8, value & 0xFF
        r1, r2 = ch.pick(((0, 0), (0, 0), (0, 0), (1, 0), (0, 255), (7, 7)), "reserved")
        cfg["octets"] = (o1, o2, r1, r2)
        extra = ch.pick((b"", b"", b"\x00\x00\x00\x00", b"\x00", b"\x00\x00\x00\x05hello"), "extra")
        hs = bytes([o1, o2, r1, r2])[:ch.pick((4, 4, 4, 4, 1, 2, 3), "hs-len", (5, 5, 5, 5, 1, 1, 1))]
        cfg["hs_len"] = len(hs)
        self.todo = [hs + (extra if len(hs) == 4 else b"")]
        self.extra = extra if len(hs) == 4 else b""
        sess = self.new_session("E")
        sobjs = [make_ser(n) for n in sers]
        e, peer = self.build_stack_raw("rs", is_server, lambda: sess, sobjs)
        self.start(e)
        self.client_ser = sers[0]
        # the real client sends its request first: the peer answers after seeing it
        self.expect_attach = None

    # --- WebSocket negotiation ---------------------------------------------------------------------------------------
    def build_ws_negotiate(self):
        ch = self.run.ch
        cfg = self.cfg

        def draw_list(tag):
            names = list(SER_NAMES)
            out = []
            n = 1 + ch.choose(4, tag + ":n")
            for _ in range(n):
                if not names:
                    break
                x = names.pop(ch.choose(len(names), tag + ":pick"))
                out.append((x, ch.flag(tag + ":batched", 0.25)))
            return out
        cfg["client"] = draw_list("c")
        cfg["server"] = draw_list("s")
        cs = self.new_session("C")
        ss = self.new_session("S")
        # the server application may decide about the connection asynchronously (its onConnect() returns a result that
        # completes later) - and the peer may be gone by then
        self.pending_onconnect = []
        cfg["deferred_onconnect"] = ch.flag("server-onConnect-completes-later", 0.2)
        cfg["cut_while_pending"] = cfg["deferred_onconnect"] and ch.flag("connection-cut-while-onConnect-pending", 0.6)
        self.cut_done = False
        c, s = self.build_stack("ws", lambda: cs, lambda: ss, [make_ser(n, b) for n, b in cfg["client"]],
                                [make_ser(n, b) for n, b in cfg["server"]], server_protocol_wrap=self.wrap_server if cfg["deferred_onconnect"] else None)
        c.monitor = SenderMonitor("must")
        s.monitor = SenderMonitor("mustnot")
        self.hook_ws_monitor(c)
        self.hook_ws_monitor(s)
        self.start(s)
        self.start(c)
        self.sent_probe = False

    def wrap_server(self, Base):
        world = self

        class DeferredOnConnect(Base):
            def onConnect(self, request):
                res = Base.onConnect(self, request)  # (a refusal is raised at once, as before)
                f = world.fw.new_future(world)
                world.pending_onconnect.append((f, res))
                world.run.probe("server-onConnect-pending")
                return f
        return DeferredOnConnect

    def resolve_onconnect(self):
        f, res = self.pending_onconnect.pop(0)
        self.fw.call(self, self.fw.resolve_future, f, res)

    def cut_now(self):
        self.cut_done = True
        self.run.fault("cut-while-server-onConnect-pending")
        self.c2s.reset()
        self.s2c.reset()

    def hook_ws_monitor(self, e):
        e.http_done = False
        e.http = bytearray()

        def on_write(data, e=e):
            if not e.http_done:
                e.http += data
                i = e.http.find(b"\r\n\r\n")
                if i < 0:
                    return
                rest = bytes(e.http[i + 4:])
                del e.http[i + 4:]
                e.http_done = True
                data = rest
            if data:
                e.monitor.feed(data)
        e.t.observers.append(on_write)

    # --- traffic ---------------------------------------------------------------------------------------------------------
    def build_traffic(self):
        ch = self.run.ch
        cfg = self.cfg
        kind = cfg["kind"] = ch.pick(("ws", "rs"), "kind")
        ser = cfg["ser"] = ch.pick(SER_NAMES + ("json-hex",), "ser")
        cfg["batched"] = ch.flag("batched", 0.2) if kind == "ws" else False
        cs = self.new_session("C")
        ss = self.new_session("S")
        copts = sopts = None
        self.limit = {"C": None, "S": None}  # max payload the *peer* of X accepts = what X may send
        if kind == "rs" and self.fwname == "tx":
            cm = ch.pick((2 ** 24, 512, 1024, 4096, 600, 5000), "c-max", (3, 2, 2, 1, 1, 1))
            sm = ch.pick((2 ** 24, 512, 1024, 4096, 700), "s-max", (3, 2, 2, 1, 1))
            copts = {"maxMessagePayloadSize": cm}
            sopts = {"maxMessagePayloadSize": sm}
            cfg["c_max"], cfg["s_max"] = cm, sm
            self.limit["S"] = 2 ** _ceil_log2(cm)  # server may send what the client announced
            self.limit["C"] = 2 ** _ceil_log2(sm)
        elif kind == "ws":
            cm = ch.pick((0, 0, 300, 1000), "c-max")
            sm = cm  # (no announcement on WebSocket: a larger message is legitimately failed by the receiver)
            copts = {"maxMessagePayloadSize": cm}
            sopts = {"maxMessagePayloadSize": sm}
            cfg["c_max"], cfg["s_max"] = cm, sm
            # WebSocket has no announcement: each side enforces its own limit when sending and receiving
            self.limit["C"] = cm or None
            self.limit["S"] = sm or None
        # (a factory usually knows several serializers; here: the batched one first, its un-batched twin second)
        twins = cfg["twins"] = bool(cfg["batched"]) and ch.flag("factory-also-knows-the-unbatched-twin", 0.6)
        sers = lambda: [make_ser(ser, cfg["batched"])] + ([make_ser(ser, False)] if twins else [])  # noqa
        c, s = self.build_stack(kind, lambda: cs, lambda: ss, sers(), sers(), copts, sopts)
        self.unserializable = []
        self.plan = {"C": self.make_messages("C"), "S": self.make_messages("S")}
        self.sent_ok = {"C": [], "S": []}
        self.cursor = {"C": 0, "S": 0}
        # a session may send from inside onOpen() (a client session's HELLO always does): the transport is attached
        # at that point, so the message must follow the transport's own handshake octets on the wire
        for who, sess in (("C", cs), ("S", ss)):
            if ch.flag("send-in-onOpen:" + who, 0.25):
                def on_open(transport, who=who, sess=sess):
                    self.run.probe("send-inside-onOpen")
                    self.traffic_send(who, sess)
                sess.hooks["onOpen"] = on_open
        self.start(s)
        self.start(c)

    def make_messages(self, who):
        ch = self.run.ch
        from autobahn.wamp import message as M
        from autobahn.wamp import role
        n = 1 + ch.choose(8, "nmsgs")
        lim = self.limit[who]
        out = []
        for i in range(n):
            t = ch.choose(25, "mtype")
            pad = 0
            if lim and lim <= 70000 and ch.flag("near-limit", 0.5):
                pad = max(0, lim + ch.pick((-40, -3, -2, -1, 0, 1, 2, 40, 400), "lim-delta") - 60)
            elif ch.flag("padded", 0.3):
                pad = ch.pick((10, 200, 3000, 70000), "pad", (3, 3, 2, 1))
            blob = "p" * pad
            args = ch.pick(([], [1], ["x", {"a": [1, 2, None]}], [blob], [b"\x00\x01\xfe\xff", "t"]), "args") if not pad else [blob]
            kwargs = ch.pick((None, {"k": "v"}, {"n": {"m": [True, 1.5]}}), "kwargs")
            if kwargs and not args:
                args = ["a0"]  # (keyword arguments on the wire require the positional list to be present)
            rid = 1 + ch.choose(1000, "rid")
            msg = [
                lambda: M.Hello("realm1", {"subscriber": role.RoleSubscriberFeatures()}, authmethods=["ticket"], authid=blob or "u"),
                lambda: M.Welcome(rid, {"broker": role.RoleBrokerFeatures()}, realm="realm1", authid=blob or "u", authrole="r"),
                lambda: M.Abort("wamp.error.not_authorized", blob or "no"),
                lambda: M.Challenge("ticket", {"x": blob}),
                lambda: M.Authenticate(blob or "sig", {"e": 1}),
                lambda: M.Goodbye("wamp.close.normal", blob or None),
                lambda: M.Error(48, rid, "com.ex.err", args=args or None, kwargs=kwargs),
                lambda: M.Publish(rid, "com.ex.topic", args=args or None, kwargs=kwargs, acknowledge=True, exclude=[1, 2]),
                lambda: M.Published(rid, rid + 1),
                lambda: M.Subscribe(rid, "com.ex.topic." + (blob[:200] or "t"), match="prefix"),
                lambda: M.Subscribed(rid, rid + 2),
                lambda: M.Unsubscribe(rid, rid + 3),
                lambda: M.Unsubscribed(rid),
                lambda: M.Event(rid, rid + 4, args=args or None, kwargs=kwargs, publisher=7, topic="com.ex.t"),
                lambda: M.Call(rid, "com.ex.proc", args=args or None, kwargs=kwargs, timeout=5, receive_progress=True),
                lambda: M.Cancel(rid, "kill"),
                lambda: M.Result(rid, args=args or None, kwargs=kwargs, progress=ch.flag("progress")),
                lambda: M.Register(rid, "com.ex.proc", match="exact", invoke="roundrobin"),
                lambda: M.Registered(rid, rid + 5),
                lambda: M.Unregister(rid, rid + 6),
                lambda: M.Unregistered(rid),
                lambda: M.Invocation(rid, rid + 7, args=args or None, kwargs=kwargs, caller=9, receive_progress=True),
                lambda: M.Interrupt(rid, "kill"),
                lambda: M.Yield(rid, args=args or None, kwargs=kwargs),
                lambda: M.EventReceived(rid),
            ][t]()
            if ch.flag("unserializable-payload", 0.1):
                # the application passes an object no serializer knows: that one send fails, the transport and its
                # serializer go on unharmed
                msg = M.Publish(rid, "com.ex.topic", args=[Opaque()], kwargs=kwargs)
                self.unserializable.append(msg)
            out.append(msg)
        return out


    # --- cross-framework pairing ------------------------------------------------------------------------------------------
    def build_xfw(self):
        """The local endpoint is real code of this worker's framework, the remote one real code of the other framework
        (helper interpreter).  Serializer lists, roles, limits and the message plans are drawn here; the helper only
        executes."""
        from sim.xpeer import Helper
        ch = self.run.ch
        cfg = self.cfg
        other = cfg["remote_fw"] = "aio" if self.fwname == "tx" else "tx"
        kind = cfg["kind"] = ch.pick(("rs", "ws"), "kind")
        local_server = cfg["local_server"] = ch.flag("local-is-server")
        self.limit = {"L": None, "R": None}  # what X may send = what its peer accepts
        lopts = ropts = None
        aio_exp = None
        if kind == "rs":
            ser = cfg["ser"] = ch.pick(SER_NAMES, "ser")
            cfg["batched"] = False
            lsers = rsers = [(ser, False)]
            if not local_server:
                pass
            # the server side may know more serializers than the one the client asks for
            more = [(n, False) for n in SER_NAMES if n != ser and ch.flag("server-also:" + n, 0.3)]
            if local_server:
                lsers = lsers + more
            else:
                rsers = rsers + more
            # announced maxima: Twisted by option; asyncio announces 2^24 (or less through the labelled knob)
            txmax = ch.pick((2 ** 24, 512, 1024, 4096, 600), "tx-max", (3, 2, 2, 1, 1))
            if ch.flag("aio-rs-small-announce", 0.4):
                aio_exp = ch.pick((1, 2, 3), "aio-rs-exp")
            aiomax = 2 ** (9 + aio_exp) if aio_exp else 2 ** 24
            cfg["tx_max"], cfg["aio_max"] = txmax, aiomax
            if self.fwname == "tx":
                lopts = {"maxMessagePayloadSize": txmax}
                self.limit["R"] = 2 ** _ceil_log2(txmax)
                self.limit["L"] = aiomax
            else:
                ropts = {"maxMessagePayloadSize": txmax}
                self.limit["L"] = 2 ** _ceil_log2(txmax)
                self.limit["R"] = aiomax
        else:
            def draw_list(tag):
                names = list(SER_NAMES)
                out = []
                for _ in range(1 + ch.choose(3, tag + ":n")):
                    out.append((names.pop(ch.choose(len(names), tag + ":pick")), ch.flag(tag + ":batched", 0.2)))
                return out
            lsers = draw_list("l")
            rsers = draw_list("r")
            # make sure there is something in common most of the time
            if not [x for x in lsers if x in rsers] and ch.flag("force-common", 0.8):
                rsers = rsers + [lsers[-1]]
            cl, sl = (rsers, lsers) if local_server else (lsers, rsers)
            common = [x for x in cl if x in sl]
            cfg["common"] = common[0] if common else None
            cfg["ser"], cfg["batched"] = common[0] if common else (lsers[0][0], False)
            cm = ch.pick((0, 0, 300, 1000), "ws-max")
            lopts = ropts = {"maxMessagePayloadSize": cm}
            self.limit["L"] = self.limit["R"] = cm or None
            cfg["ws_max"] = cm
        cfg["lsers"], cfg["rsers"] = lsers, rsers
        sess = self.new_session("L")
        e, peer = self.build_stack_raw(kind, local_server, lambda: sess, [make_ser(n, b) for n, b in lsers], lopts)
        if self.fwname == "aio" and kind == "rs" and aio_exp:
            e.p._length_exp = aio_exp
            e.p.max_length = 2 ** (9 + aio_exp)
        if kind == "ws":
            e.monitor = SenderMonitor("mustnot" if local_server else "must")
            self.hook_ws_monitor(e)
        self.unserializable = []
        self.plan = {"L": self.make_messages("L"), "R": [m for m in self.make_messages("R")]}
        self.plan["R"] = [m for m in self.plan["R"] if not any(m is u for u in self.unserializable)]
        self.sent_ok = {"L": [], "R": []}
        self.cursor = {"L": 0, "R": 0}
        self.r_events = []
        self.r_escaped = []
        self.r_gone = False
        self.r_attached = False
        self.r_serializer = None
        self.r_out = bytearray()
        self.to_remote = 0  # cursor into peer.received: octets the local endpoint wrote that have reached the remote one
        self.helper = Helper.get(other)
        seamseed = ch.choose(1 << 16, "remote-seamseed")
        resp = self.helper.call("reset", {"kind": kind, "is_server": not local_server, "sers": rsers, "opts": ropts,
                                          "seamseed": seamseed, "aio_rs_exp": aio_exp})
        self.xfw_absorb(resp)
        self.start(e)
        self.run.probe("xfw:%s:%s-%s" % (kind, self.fwname + ("S" if local_server else "C"), other + ("C" if local_server else "S")))

    def xfw_absorb(self, resp):
        """What the remote endpoint wrote goes onto the link towards the local one; what its session saw is recorded."""
        if resp["out"]:
            self.r_out += resp["out"]
            self.peer.send(resp["out"])
        for ev in resp["events"]:
            self.run.log("remote-session", ev[0], ev[1][:3] if ev[0] == "onMessage" else ev[1:])
            self.r_events.append(ev)
        for esc in resp["escaped"]:
            self.r_escaped.append(esc)
            self.run.log("remote-escaped", esc)
        self.r_gone = resp["gone"]
        self.r_attached = resp["attached"]
        self.r_serializer = resp["serializer"]
        if resp.get("saw_fin") or resp.get("saw_rst"):
            self.r_closed_link = True

    r_closed_link = False

    def xfw_pending(self):
        return len(self.peer.received) - self.to_remote

    def xfw_feed(self, whole=False):
        n = self.xfw_pending()
        k = n if whole else self.pick_chunk(n)
        chunk = bytes(self.peer.received[self.to_remote:self.to_remote + k])
        self.to_remote += k
        if self.to_remote < len(self.peer.received):
            self.run.probe("split-delivery")
        self.run.log("deliver-remote", len(chunk), short(chunk))
        self.xfw_absorb(self.helper.call("feed", chunk))

    def xfw_remote_send(self):
        msg = self.plan["R"][self.cursor["R"]]
        self.cursor["R"] += 1
        size = len(make_ser(self.cfg["ser"], self.cfg["batched"]).serialize(msg)[0])
        lim = self.limit["R"]
        n0 = len(self.r_out)
        resp = self.helper.call("send", msg.marshal())
        self.xfw_absorb(resp)
        self.run.log("remote-send", type(msg).__name__, size, resp["sent"], resp.get("exc"))
        kind = self.cfg["kind"]
        if not resp["sent"]:
            if lim is None or size <= lim:
                self.run.violate("C13.never-over-announced", "send-within-limit-raised:%s:%s:xfw-remote" % (kind, resp.get("exc")),
                                 "size %d limit %r" % (size, lim))
            else:
                self.run.probe("over-limit-send-refused")
                if len(self.r_out) != n0:
                    self.run.violate("C13.never-over-announced", "refused-send-wrote-octets:xfw-remote", "")
            return
        if lim is not None and size > lim:
            self.run.violate("C13.never-over-announced", "over-limit-send-accepted:%s:xfw-remote" % kind, "size %d limit %d" % (size, lim))
            return
        self.sent_ok["R"].append(msg)

    def xfw_local_send(self):
        sess = self.sessions[0]
        msg = self.plan["L"][self.cursor["L"]]
        self.cursor["L"] += 1
        w0 = len(self.peer.received) + len(getattr(self.e.t, "outbuf", b""))
        kind = self.cfg["kind"]
        if any(msg is u for u in self.unserializable):
            try:
                self.fw.call(self, sess._transport.send, msg)
            except Exception as ex:  # noqa
                self.run.probe("unserializable-message-refused:%s" % type(ex).__name__)
            else:
                self.run.violate("C13.intact-in-order", "unserializable-message-accepted:%s" % kind, "")
            return
        size = len(make_ser(self.cfg["ser"], self.cfg["batched"]).serialize(msg)[0])
        lim = self.limit["L"]
        try:
            self.fw.call(self, sess._transport.send, msg)
        except Exception as ex:  # noqa
            self.run.log("send-raised", "L", type(ex).__name__, size)
            if lim is None or size <= lim:
                self.run.violate("C13.never-over-announced", "send-within-limit-raised:%s:%s" % (kind, type(ex).__name__),
                                 "size %d limit %r: %r" % (size, lim, ex))
            else:
                self.run.probe("over-limit-send-refused")
            return
        if lim is not None and size > lim:
            self.run.violate("C13.never-over-announced", "over-limit-send-accepted:%s" % kind, "size %d limit %d" % (size, lim))
            return
        self.sent_ok["L"].append(msg)

    def drain(self):
        if self.cfg["mode"] != "xfw":
            return StackWorld.drain(self)
        for _ in range(200):
            StackWorld.drain(self)
            if self.run.fatal:
                return
            if not self.xfw_pending() or self.r_gone:
                break
            self.xfw_feed(whole=True)
        else:
            raise HarnessError("xfw drain did not converge")

    def final_xfw(self):
        run = self.run
        cfg = self.cfg
        kind = cfg["kind"]
        sess = self.sessions[0]
        r_opens = sum(1 for ev in self.r_events if ev[0] == "onOpen")
        r_closes = sum(1 for ev in self.r_events if ev[0] == "onClose")
        r_msgs = [ev[1] for ev in self.r_events if ev[0] == "onMessage"]
        pairing = "%s-%s" % (self.fwname, cfg["remote_fw"])
        for esc in self.r_escaped:
            run.violate("C13.refuse-quietly", "xfw-remote:%s:%s:%s" % tuple(esc), pairing)
        should_attach = kind == "rs" or cfg.get("common") is not None
        if not should_attach:
            if sess.opens or r_opens:
                run.violate("C13.attach-iff-negotiated", "attached-without-common-subprotocol:xfw", repr((cfg["lsers"], cfg["rsers"])))
            run.probe("xfw-no-common-subprotocol")
            return
        if sess.opens != 1 or r_opens != 1:
            run.violate("C13.attach-iff-negotiated", "valid-handshake-not-attached:xfw:%s:%s" % (kind, pairing),
                        "local opens %d remote opens %d" % (sess.opens, r_opens))
            return
        run.probe("xfw-attached")
        if kind == "ws":
            want = "%s%s" % (cfg["common"][0], ".batched" if cfg["common"][1] else "")
            got_l = self.e.p._serializer.SERIALIZER_ID
            if got_l != self.r_serializer:
                run.violate("C13.attach-iff-negotiated", "ends-use-different-serializers:xfw", "%s vs %s" % (got_l, self.r_serializer))
            if got_l != want:
                run.violate("C13.attach-iff-negotiated", "not-clients-first-preference:xfw", "chosen %s, want %s" % (got_l, want))
        for who, got, tag in (("L", r_msgs, "remote"), ("R", [m.marshal() for m in sess.msgs], "local")):
            want = [m.marshal() for m in self.sent_ok[who]]
            if _norm(got) != _norm(want):
                k = 0
                while k < len(got) and k < len(want) and _norm([got[k]]) == _norm([want[k]]):
                    k += 1
                what = "missing" if len(got) < len(want) else ("extra" if len(got) > len(want) else "differs")
                run.violate("C13.intact-in-order", "%s:%s:%s:xfw-%s" % (what, kind, cfg["ser"], tag),
                            "%s (%s) sent %d, peer got %d, first difference at #%d: %s vs %s" % (
                                who, pairing, len(want), len(got), k, short(repr(got[k]).encode(), 60) if k < len(got) else None,
                                short(repr(want[k]).encode(), 60) if k < len(want) else None))
        if sess.closes or r_closes or self.r_gone or self.e.t.is_gone():
            run.violate("C13.intact-in-order", "transport-closed-during-valid-traffic:%s:xfw" % kind,
                        "local closes %d gone %s, remote closes %d gone %s" % (sess.closes, self.e.t.is_gone(), r_closes, self.r_gone))
        if kind == "rs":
            self.scan_rs_frames(bytes(self.peer.received[4:]), self.limit["L"], "L")
            self.scan_rs_frames(bytes(self.r_out[4:]), self.limit["R"], "R")

    # --- rs-limits -----------------------------------------------------------------------------------------------------------
    def build_rs_limits(self):
        ch = self.run.ch
        cfg = self.cfg
        is_server = cfg["server"] = ch.flag("server")
        exp = cfg["peer_exp"] = ch.choose(16, "peer-exp", [3, 3, 3, 2] + [1] * 12)
        ser = cfg["ser"] = ch.pick(SER_NAMES, "ser")
        opts = None
        if self.fwname == "tx":
            cfg["local_max"] = ch.pick((2 ** 24, 512, 1024, 4096, 1000), "local-max")
            opts = {"maxMessagePayloadSize": cfg["local_max"]}
        else:
            cfg["local_max"] = 2 ** 24
        sess = self.new_session("E")
        e, peer = self.build_stack_raw("rs", is_server, lambda: sess, [make_ser(ser)], opts)
        if self.fwname == "aio" and ch.flag("aio-rs-small-announce", 0.6):
            # labelled white-box knob: the asyncio RawSocket protocols have no option for the maximum they announce
            # (fixed 2^24); set the instance attributes their __init__ computes
            lexp = ch.pick((1, 2, 3), "aio-rs-exp")
            e.p._length_exp = lexp
            e.p.max_length = 2 ** (9 + lexp)
            cfg["local_max"] = 2 ** (9 + lexp)
        self.peer_limit = 2 ** (9 + exp)
        self.local_announced = 2 ** _ceil_log2(cfg["local_max"])
        self.base = 4  # the endpoint's own handshake octets come first on the wire
        self.app_msgs = []
        self.limit = {"E": self.peer_limit}
        from autobahn.wamp import message as M
        n = 1 + ch.choose(5, "n")
        for i in range(n):
            d = ch.pick((-200, -30, -3, -2, -1, 0, 1, 2, 30, 5000), "delta")
            target = max(0, self.peer_limit + d)
            if target > 300000:
                target = 1000
            self.app_msgs.append(("e%d" % i, target))
        if ch.flag("send-in-onOpen", 0.3):
            # the session sends its first message from inside onOpen(): the peer's announcement is already in force
            def on_open(transport):
                self.run.probe("send-inside-onOpen")
                self.limits_send()
            sess.hooks["onOpen"] = on_open
        self.start(e)
        self.pump_all()
        hs = bytes([0x7F, (exp << 4) | RS_ID[ser], 0, 0])
        self.peer.send(hs)
        self.pump_all()
        if sess.opens != 1:
            raise SetupViolation("session-not-attached-after-valid-handshake:rs", "rs-limits")
        # what the peer will send: frames around / beyond the local maximum
        self.peer_frames = []
        if ch.flag("peer-oversize", 0.6):
            over = self.local_announced + ch.pick((1, 2, 1000), "over")
            if over <= 2 ** 24 and over < 100000 and ch.flag("oversize-frame-complete", 0.4):
                # the whole over-long frame - a perfectly valid message - is there at once: refused all the same
                payload = make_ser(ser).serialize(M.Publish(7, "com.ex.oversize", args=["o" * over]))[0]
                self.peer_frames.append(("oversize-complete", struct.pack("!L", len(payload)) + payload, len(payload)))
                self.run.probe("peer-oversize-frame-complete")
            elif over <= 2 ** 24:
                # only the 4-octet prefix and a few payload octets: the verdict must not wait for the payload
                self.peer_frames.append(("oversize", struct.pack("!L", over) + b"x" * 8, over))

    # --- corrupt ----------------------------------------------------------------------------------------------------------------
    def build_corrupt(self):
        ch = self.run.ch
        cfg = self.cfg
        kind = cfg["kind"] = ch.pick(("ws", "rs"), "kind")
        ser = cfg["ser"] = ch.pick(SER_NAMES, "ser")
        is_server = cfg["server"] = ch.flag("server")
        what = cfg["what"] = ch.pick(("flip-type", "garbage", "truncated", "out-of-phase", "session-raises-onMessage",
                                      "session-raises-onOpen", "not-a-list", "unknown-type", "ws-no-subprotocol"), "what")
        if what == "ws-no-subprotocol":
            # a WebSocket server that completes the upgrade without selecting any subprotocol (a plain WebSocket server
            # behind the URL): no serializer was agreed on, the client must not attach a session
            kind = cfg["kind"] = "ws"
            is_server = cfg["server"] = False
        sess = self.new_session("E")
        # (the text of the session's exception ends up in the close reason: it may be long, and it may be long only when
        # counted in octets - 100 Cyrillic or CJK characters are 200 or 300 octets)
        etext = ch.pick(("session %s fails", "session %s fails: " + "x" * 200, "сессия %s: " + "ошибка обработки сообщения " * 4,
                         "%s: " + "処理に失敗しました" * 9), "exception-text", (3, 1, 1.5, 1.5))
        if what == "session-raises-onOpen":
            sess.hooks["onOpen"] = lambda t: (_ for _ in ()).throw(RuntimeError(etext % "onOpen"))
        if what == "session-raises-onMessage":
            sess.hooks["onMessage"] = lambda m: (_ for _ in ()).throw(RuntimeError(etext % "onMessage"))
        if what == "out-of-phase":
            from autobahn.wamp.exception import ProtocolError
            sess.hooks["onMessage"] = lambda m: (_ for _ in ()).throw(ProtocolError("message out of phase"))
        e, peer = self.build_stack_raw(kind, is_server, lambda: sess, [make_ser(ser)], {"failByDrop": False} if kind == "ws" else None)
        if kind == "ws":
            e.monitor = SenderMonitor("any")
            e.http_done = False
            e.http = bytearray()
            self.hook_ws_monitor(e)
        self.start(e)
        self.pump_all()
        # canned transport handshake
        if kind == "ws":
            sub = "wamp.2." + ser
            if is_server:
                self.peer.send(self.client_request_bytes(resource="/ws", extra=b"Sec-WebSocket-Protocol: " + sub.encode() + b"\r\n"))
            elif what == "ws-no-subprotocol":
                self.peer.send(self.server_response_bytes(bytes(self.peer.received)))
            else:
                self.peer.send(self.server_response_bytes(bytes(self.peer.received), extra=b"Sec-WebSocket-Protocol: " + sub.encode() + b"\r\n"))
        else:
            self.peer.send(bytes([0x7F, (15 << 4) | RS_ID[ser], 0, 0]))
        self.pump_all()
        if what == "ws-no-subprotocol":
            self.todo = []
            self.expect_reason = "protocol"
            self.local_close_first = False
            self.run.probe("ws-101-without-subprotocol")
            return
        if what != "session-raises-onOpen" and sess.opens != 1:
            raise SetupViolation("session-not-attached-after-valid-handshake:%s" % kind, ser)
        from autobahn.wamp import message as M
        s = make_ser(ser)
        good, is_bin = s.serialize(M.Published(1, 2))
        payload = good
        binary = is_bin
        if what == "flip-type":
            binary = not is_bin
        elif what == "garbage":
            payload = b"\xc1\xff\x00garbage\xfe" if ser != "json" else b"{not json]"
        elif what == "truncated":
            payload = good[:max(1, len(good) // 2)]
        elif what == "not-a-list":
            payload = make_ser(ser)._serializer.serialize({"a": 1}) if hasattr(make_ser(ser), "_serializer") else good
        elif what == "unknown-type":
            payload = make_ser(ser)._serializer.serialize([999, 1, 2])
        self.expect_reason = {"flip-type": "protocol", "garbage": "protocol", "truncated": "protocol", "not-a-list": "protocol",
                              "unknown-type": "protocol", "out-of-phase": "protocol", "session-raises-onMessage": "internal",
                              "session-raises-onOpen": "internal"}[what]
        good2, _ = s.serialize(M.Published(3, 4))
        if kind == "ws":
            mask = b"\x01\x02\x03\x04" if is_server else None
            frames = [encode_frame(2 if binary else 1, payload, mask=mask), encode_frame(2 if is_bin else 1, good2, mask=mask)]
        else:
            if what == "flip-type":
                # RawSocket frame type bits: 1 = PING, 2 = PONG, 3..7 reserved
                ft = ch.pick((1, 2, 3, 7), "frame-type")
                cfg["rs_frame_type"] = ft
                frames = [bytes([ft]) + struct.pack("!L", len(good))[1:] + good, struct.pack("!L", len(good2)) + good2]
            else:
                frames = [struct.pack("!L", len(payload)) + payload, struct.pack("!L", len(good2)) + good2]
        if what == "session-raises-onOpen":
            frames = frames[1:]
        self.todo = [b"".join(frames)] if ch.flag("one-segment") else frames
        self.corrupt_sent = False
        # the local session may have asked its transport to close just before the bad data arrives: the closing
        # handshake in flight is no licence to keep a connection with a misbehaving peer
        self.local_close_first = False
        if kind == "ws" and what != "session-raises-onOpen" and ch.flag("local-close-first", 0.25):
            self.local_close_first = True
            self.fw.call(self, sess._transport.close)
            self.pump_all()
            self.run.fault("local-close-in-flight")

    # =====================================================================================================
    # actions
    def extra_actions(self):
        acts = []
        name = self.cfg["mode"]
        if name.startswith("rs-hs") or name == "corrupt":
            ready = True
            if name.startswith("rs-hs-client"):
                ready = len(self.peer.received) >= 4 or self.e.t.is_gone()
            if self.todo and not self.peer.closed and ready:
                acts.append((4.0, "peer-send", self.peer_send))
            if name == "corrupt" and self.cfg.get("kind") == "ws" and not self.todo and not self.peer.closed \
                    and getattr(self.e.monitor, "close_count", 0) >= 1 and not getattr(self, "close_replied", False) \
                    and not self.e.t.is_gone():
                # the peer answers our close frame - and then (see drain) does not drop TCP by itself
                acts.append((2.0, "peer-close-reply", self.peer_close_reply))
        elif name == "ws-negotiate":
            if not self.sent_probe and all(s.opens for s in self.sessions) and not self.cut_done:
                acts.append((3.0, "probe-messages", self.ws_probe))
            if self.pending_onconnect:
                if self.cfg["cut_while_pending"] and not self.cut_done:
                    acts.append((4.0, "cut", self.cut_now))
                else:
                    acts.append((3.0, "server-onConnect-completes", self.resolve_onconnect))
        elif name == "traffic":
            for who, e, sess in (("C", self.client, self.sessions[0]), ("S", self.server, self.sessions[1])):
                if self.cursor[who] < len(self.plan[who]) and sess.opens and sess._transport is not None:
                    acts.append((3.0, "send:" + who, lambda who=who, sess=sess: self.traffic_send(who, sess)))
        elif name == "xfw":
            if self.xfw_pending() and not self.r_gone:
                acts.append((8.0, "deliver-remote", self.xfw_feed))
            sess = self.sessions[0]
            if self.cursor["L"] < len(self.plan["L"]) and sess.opens and sess._transport is not None:
                acts.append((3.0, "send:L", self.xfw_local_send))
            if self.cursor["R"] < len(self.plan["R"]) and self.r_attached and not self.r_gone:
                acts.append((3.0, "send:R", self.xfw_remote_send))
        elif name == "rs-limits":
            if self.app_msgs and self.sessions[0]._transport is not None:
                acts.append((3.0, "app-send", self.limits_send))
            if self.peer_frames and not self.peer.closed and not self.e.t.is_gone():
                acts.append((2.0, "peer-frame", self.limits_peer_frame))
        return acts

    def peer_send(self):
        ch = self.run.ch
        data = self.todo.pop(0)
        if len(data) > 1 and ch.flag("split", 0.5):
            k = 1 + ch.choose(len(data) - 1, "split-at")
            self.todo.insert(0, data[k:])
            data = data[:k]
        self.corrupt_started = True
        self.peer.send(data)

    def peer_close_reply(self):
        self.close_replied = True
        mask = b"\x05\x06\x07\x08" if self.cfg["server"] else None
        self.run.fault("peer-answers-close-keeps-tcp-open")
        self.peer.send(encode_frame(8, struct.pack("!H", 1000), mask=mask))

    def bad_data_delivered(self):
        # everything the peer was to send has been emitted and delivered
        return self.corrupt_started and not self.todo

    corrupt_started = False

    def ws_probe(self):
        from autobahn.wamp import message as M
        self.sent_probe = True
        for sess in self.sessions:
            try:
                self.fw.call(self, sess._transport.send, M.Published(11, 22))
            except Exception as e:  # noqa
                self.run.violate("C13.intact-in-order", "send-raised:%s" % type(e).__name__, repr(e))

    def traffic_send(self, who, sess):
        msg = self.plan[who][self.cursor[who]]
        self.cursor[who] += 1
        e = self.client if who == "C" else self.server
        w0 = len(e.written)
        if any(msg is u for u in self.unserializable):
            try:
                self.fw.call(self, sess._transport.send, msg)
            except Exception as ex:  # noqa
                self.run.probe("unserializable-message-refused:%s" % type(ex).__name__)
                if len(e.written) != w0:
                    self.run.violate("C13.intact-in-order", "refused-send-wrote-octets:unserializable", "")
            else:
                self.run.violate("C13.intact-in-order", "unserializable-message-accepted:%s" % self.cfg["kind"], "")
            return
        size = len(make_ser(self.cfg["ser"], self.cfg["batched"]).serialize(msg)[0])
        lim = self.limit[who]
        try:
            self.fw.call(self, sess._transport.send, msg)
        except Exception as ex:  # noqa
            self.run.log("send-raised", who, type(ex).__name__, size)
            if lim is None or size <= lim:
                self.run.violate("C13.never-over-announced", "send-within-limit-raised:%s:%s" % (self.cfg["kind"], type(ex).__name__),
                                 "size %d limit %r: %r" % (size, lim, ex))
            else:
                self.run.probe("over-limit-send-refused")
                if len(e.written) != w0:
                    self.run.violate("C13.never-over-announced", "refused-send-wrote-octets", "")
            return
        if lim is not None and size > lim:
            self.run.violate("C13.never-over-announced", "over-limit-send-accepted:%s" % self.cfg["kind"], "size %d limit %d" % (size, lim))
            return
        self.sent_ok[who].append(msg)

    def limits_send(self):
        from autobahn.wamp import message as M
        tok, target = self.app_msgs.pop(0)
        sess = self.sessions[0]
        ser = make_ser(self.cfg["ser"])
        # build a message whose serialized size is exactly `target` when possible
        base = len(ser.serialize(M.Abort("wamp.error.x", ""))[0])
        pad = max(0, target - base)
        msg = M.Abort("wamp.error.x", "m" * pad)
        size = len(ser.serialize(msg)[0])
        w0 = len(self.peer.received)
        try:
            self.fw.call(self, sess._transport.send, msg)
        except Exception as ex:  # noqa
            self.run.log("send-raised", type(ex).__name__, size, self.peer_limit)
            if size <= self.peer_limit:
                self.run.violate("C13.never-over-announced", "send-within-limit-raised:rs:%s" % type(ex).__name__, "size %d limit %d" % (size, self.peer_limit))
            else:
                self.run.probe("over-limit-send-refused")
            return
        if size > self.peer_limit:
            self.run.violate("C13.never-over-announced", "over-limit-send-accepted:rs", "size %d, peer announced %d" % (size, self.peer_limit))

    def limits_peer_frame(self):
        what, data, declared = self.peer_frames.pop(0)
        self.oversize_declared = declared
        self.oversize_sent_at = len(self.e.delivered)
        self.peer.send(data)
        self.run.probe("peer-oversize-frame")

    # =====================================================================================================
    # oracles
    def on_escape(self, ep, where, exc):
        name = self.cfg["mode"]
        site = exc_site(exc)
        if name.startswith("rs-hs") or name == "ws-negotiate" or name == "xfw":
            self.run.violate("C13.refuse-quietly", "%s:%s:%s" % (where, type(exc).__name__, site), repr(exc))
        elif where in ("dataReceived", "data_received") and name in ("rs-limits", "corrupt"):
            # the framework drops the connection when data_received raises: the transport is closed
            # (Twisted: lengthLimitExceeded() raises PayloadExceededError; asyncio: ping()/pong() raise
            # NotImplementedError).  The statement forbids escaping exceptions only for handshakes.
            self.run.probe("closed-by-escaping-%s" % type(exc).__name__)
        else:
            self.run.violate("C13.fail-closed", "%s:%s:%s" % (where, type(exc).__name__, site), repr(exc))

    def check_step(self):
        self.check_escapes()
        for s in self.sessions:
            if s.closes > 1 and not getattr(s, "_rep", False):
                s._rep = True
                self.run.violate("C13.told-once", "onClose-x%d" % s.closes, s.name)
            if s.opens > 1 and not getattr(s, "_rep2", False):
                s._rep2 = True
                self.run.violate("C13.attach-iff-negotiated", "onOpen-x%d" % s.opens, s.name)
        if self.cfg["mode"] == "corrupt" and getattr(self, "local_close_first", False) and not self.todo and not self.p2e.buf \
                and not self.fw.loop_actions(self) and not getattr(self, "_lcf_checked", False) and len(self.e.delivered) > 0 \
                and self.bad_data_delivered():
            self._lcf_checked = True
            t = self.e.t
            closing = t.is_gone() or getattr(t, "aborting", False) or getattr(t, "disconnecting", False) or getattr(t, "_closing", False)
            if not closing:
                self.run.violate("C13.fail-closed", "ws-not-closed:%s:local-close-in-flight" % self.cfg["what"], "")
        # never a frame longer than the peer announced (RawSocket, observed on the wire)
        if self.cfg["mode"] == "rs-limits":
            self.scan_rs_frames(bytes(self.peer.received[self.base:]), self.peer_limit, "E")
            # reject-over-local: once the oversize prefix has been delivered, the endpoint closes
            if getattr(self, "oversize_declared", None) is not None and not self.p2e.buf and not self.fw.loop_actions(self):
                if len(self.e.delivered) >= self.oversize_sent_at + 4 and not getattr(self, "_over_checked", False):
                    self._over_checked = True
                    t = self.e.t
                    closing = t.is_gone() or getattr(t, "aborting", False) or getattr(t, "disconnecting", False) or getattr(t, "_closing", False)
                    if not closing:
                        self.run.violate("C13.reject-over-local", "oversize-frame-not-rejected", "declared %d, local max %d" % (
                            self.oversize_declared, self.local_announced))
                    if any(getattr(m, "topic", None) == "com.ex.oversize" for m in self.sessions[0].msgs):
                        self.run.violate("C13.reject-over-local", "oversize-frame-delivered-to-the-session", "declared %d, local max %d" % (
                            self.oversize_declared, self.local_announced))

    def scan_rs_frames(self, data, limit, who):
        i = 0
        while len(data) - i >= 4:
            n = struct.unpack("!L", b"\x00" + data[i + 1:i + 4])[0]
            if data[i] != 0 and not getattr(self, "_type_rep", False):
                # first octet of a frame header: RRRRRTTT - reserved bits zero, type 0 = regular WAMP message (the
                # transports never originate RawSocket pings on their own)
                self._type_rep = True
                self.run.violate("C13.intact-in-order", "rs-frame-header-octet-0-not-zero", "%s wrote header %s" % (who, data[i:i + 4].hex()))
            if n > limit and not getattr(self, "_over_rep", False):
                self._over_rep = True
                self.run.violate("C13.never-over-announced", "frame-longer-than-announced", "%s wrote a frame of %d, limit %d" % (who, n, limit))
            i += 4 + n

    def final(self):
        self.check_step()
        name = self.cfg["mode"]
        run = self.run
        if name.startswith("rs-hs"):
            self.final_rs_hs(name.startswith("rs-hs-server"))
        elif name == "ws-negotiate":
            self.final_ws_negotiate()
        elif name == "traffic":
            self.final_traffic()
        elif name == "corrupt":
            self.final_corrupt()
        elif name == "xfw":
            self.final_xfw()
        # told-once: every attached session is told exactly once that the transport is gone
        for s, e in self.session_ends():
            if s.opens and e.t.is_gone() and s.closes != 1:
                run.violate("C13.told-once", "attached-session-onClose-x%d" % s.closes, s.name)
            if not s.opens and s.closes:
                run.violate("C13.told-once", "onClose-without-onOpen", s.name)

    def session_ends(self):
        if len(self.eps) == 2:
            return list(zip(self.sessions, self.eps))
        return [(self.sessions[0], self.eps[0])]

    def final_rs_hs(self, is_server):
        run = self.run
        cfg = self.cfg
        o1, o2, r1, r2 = cfg["octets"]
        sess = self.sessions[0]
        e = self.e
        complete = cfg["hs_len"] == 4
        ser_id = o2 & 0x0F
        supported = {RS_ID[n] for n in cfg["sers"]}
        if is_server:
            valid = complete and o1 == 0x7F and ser_id in supported
        else:
            valid = complete and o1 == 0x7F and ser_id == RS_ID[self.client_ser]
        reserved_bad = (r1, r2) != (0, 0)
        attached = sess.opens == 1
        if attached and not valid:
            run.violate("C13.attach-iff-negotiated", "attached-on-invalid-handshake:%s" % ("server" if is_server else "client"),
                        "octets %r supported %r" % (cfg["octets"], sorted(supported)))
        if valid and not attached and not reserved_bad:
            run.violate("C13.attach-iff-negotiated", "valid-handshake-refused:%s" % ("server" if is_server else "client"),
                        "octets %r supported %r" % (cfg["octets"], sorted(supported)))
        if attached:
            run.probe("rs-attached")
            if is_server:
                reply = bytes(e.written[:4])  # (what the endpoint wrote; an abort may drop it before it is flushed)
                if len(reply) != 4 or reply[0] != 0x7F or (reply[1] & 0x0F) != ser_id or reply[2:] != b"\x00\x00":
                    run.violate("C13.attach-iff-negotiated", "bad-handshake-reply", reply.hex())
            if e.p._serializer.RAWSOCKET_SERIALIZER_ID != ser_id:
                run.violate("C13.attach-iff-negotiated", "serializer-differs-from-negotiated", "")
        elif complete:
            run.probe("rs-refused")
            # refused: the transport must be closed
            if not e.t.is_gone():
                run.violate("C13.refuse-quietly", "refused-but-transport-open:%s" % ("server" if is_server else "client"),
                            "octets %r" % (cfg["octets"],))
            if sess.msgs:
                run.violate("C13.attach-iff-negotiated", "message-delivered-without-attach", "")

    def final_ws_negotiate(self):
        run = self.run
        cfg = self.cfg
        cs, ss = self.sessions
        if self.cut_done:
            # the connection was cut while the server's onConnect() was pending: no session may be attached to the dead
            # connection afterwards (told-once, checked for every mode, covers sessions attached before the cut)
            for sess, e in zip(self.sessions, self.eps):
                if sess.opens and sess.closes == 0 and e.t.is_gone():
                    run.violate("C13.told-once", "session-attached-to-a-lost-connection-and-never-told", sess.name)
            run.probe("ws-cut-while-onConnect-pending")
            return
        cl = ["%s%s" % (n, ".batched" if b else "") for n, b in cfg["client"]]
        sl = ["%s%s" % (n, ".batched" if b else "") for n, b in cfg["server"]]
        common = [x for x in cl if x in sl]
        if common:
            want = common[0]
            if not (cs.opens == 1 and ss.opens == 1):
                run.violate("C13.attach-iff-negotiated", "common-subprotocol-but-not-attached", "client %r server %r" % (cl, sl))
                return
            got_c = self.client.p._serializer.SERIALIZER_ID
            got_s = self.server.p._serializer.SERIALIZER_ID
            if got_c != got_s:
                run.violate("C13.attach-iff-negotiated", "ends-use-different-serializers", "%s vs %s" % (got_c, got_s))
            if got_s != want:
                run.violate("C13.attach-iff-negotiated", "not-clients-first-preference", "client %r server %r chosen %s" % (cl, sl, got_s))
            run.probe("ws-negotiated")
            # matching text/binary framing
            is_text = want.startswith("json")
            for e in (self.client, self.server):
                for data, binary, comp, n in e.monitor.messages:
                    if binary == is_text:
                        run.violate("C13.attach-iff-negotiated", "wrong-opcode-for-serializer", "%s binary=%s" % (want, binary))
            if self.sent_probe:
                for s in (cs, ss):
                    if len(s.msgs) != 1 or s.msgs[0].marshal() != [17, 11, 22]:
                        run.violate("C13.intact-in-order", "probe-message-not-delivered", s.name)
        else:
            if cs.opens or ss.opens:
                run.violate("C13.attach-iff-negotiated", "attached-without-common-subprotocol", "client %r server %r" % (cl, sl))
            run.probe("ws-no-common-subprotocol")

    def final_traffic(self):
        run = self.run
        for who, rcv in (("C", self.sessions[1]), ("S", self.sessions[0])):
            want = [m.marshal() for m in self.sent_ok[who]]
            got = [m.marshal() for m in rcv.msgs]
            if _norm(got) != _norm(want):
                k = 0
                while k < len(got) and k < len(want) and _norm([got[k]]) == _norm([want[k]]):
                    k += 1
                what = "missing" if len(got) < len(want) else ("extra" if len(got) > len(want) else "differs")
                run.violate("C13.intact-in-order", "%s:%s:%s" % (what, self.cfg["kind"], self.cfg["ser"]),
                            "%s sent %d got %d, first difference at #%d: %s vs %s" % (who, len(want), len(got), k,
                                                                                    short(repr(got[k]).encode(), 60) if k < len(got) else None,
                                                                                    short(repr(want[k]).encode(), 60) if k < len(want) else None))
        for s in self.sessions:
            if s.closes:
                run.violate("C13.intact-in-order", "transport-closed-during-valid-traffic:%s" % self.cfg["kind"], s.name)
        # RawSocket: frames on the wire never exceed what the peer announced
        if self.cfg["kind"] == "rs" and self.fwname == "tx":
            self.scan_rs_frames(bytes(self.client.written[4:]), self.limit["C"], "C")
            self.scan_rs_frames(bytes(self.server.written[4:]), self.limit["S"], "S")

    def final_corrupt(self):
        run = self.run
        cfg = self.cfg
        e = self.e
        sess = self.sessions[0]
        what = cfg["what"]
        kind = cfg["kind"]
        if what == "ws-no-subprotocol":
            if sess.opens:
                run.violate("C13.attach-iff-negotiated", "attached-without-subprotocol:client", "onOpen x%d, onClose x%d" % (sess.opens, sess.closes))
            if not e.t.is_gone():
                run.violate("C13.refuse-quietly", "refused-but-transport-open:ws-client", "")
            return
        # the good message after the corrupted one must not be delivered as if nothing happened
        if what != "session-raises-onOpen":
            delivered_after = [m for m in sess.msgs if m.marshal() == [17, 3, 4]]
            cont = (delivered_after and what not in ("session-raises-onMessage", "out-of-phase")) or \
                (what in ("session-raises-onMessage", "out-of-phase") and len(sess.msgs) > 1)
            if cont:
                # (not part of the statement: counted only - on RawSocket a message in the same
                # segment is still handed to the session after abort())
                run.probe("message-delivered-after-violation:" + kind)
        if kind == "ws":
            m = e.monitor
            for suffix, sig, detail in m.errors:
                # what the endpoint wrote while failing the connection is a well-formed frame sequence too: a malformed
                # close frame never tells the peer the status
                run.violate("C13.fail-closed", "ws-malformed-octets-written:%s:%s" % (sig, what), detail)
            del m.errors[:]
            want = 1002 if self.expect_reason == "protocol" else 1011
            if getattr(self, "local_close_first", False):
                if m.close_count > 1:
                    run.violate("C13.fail-closed", "ws-second-close-frame:%s" % what, "")
                if not e.t.is_gone():
                    run.violate("C13.fail-closed", "ws-not-closed:%s" % what, "")
            elif m.close_count != 1:
                if not e.t.is_gone():
                    run.violate("C13.fail-closed", "ws-not-closed:%s" % what, "")
                else:
                    run.violate("C13.fail-closed", "ws-dropped-without-close-frame:%s" % what, "")
            elif m.close_sent[0] != want:
                if what == "flip-type" and m.close_sent[0] == 1007:
                    pass  # binary payload sent as a text frame: the WebSocket layer rejects the non-UTF-8 text first
                else:
                    run.violate("C13.fail-closed", "ws-close-status-%s-for-%s" % (m.close_sent[0], what), "")
        else:
            if not e.t.is_gone():
                run.violate("C13.fail-closed", "rs-transport-still-open:%s" % what, "")
        # told exactly once: an attached session whose transport is gone has seen onClose - once
        if sess.opens == 1 and e.t.is_gone() and sess.closes != 1:
            run.violate("C13.told-once", "onClose-x%d" % sess.closes, "%s, %s" % (kind, what))
        run.probe("corrupt:" + what)

    def nontrivial(self):
        return self.run.steps >= 2

    def sample(self):
        return {"mode": self.mode, "config": {k: repr(v) for k, v in self.cfg.items()},
                "sessions": {s.name: [ev[0] for ev in s.events][:20] for s in self.sessions}}


def _ceil_log2(n):
    import math
    return int(math.ceil(math.log(n, 2)))


def _norm(x):
    """Marshalled messages compared modulo tuple/list."""
    if isinstance(x, (list, tuple)):
        return [_norm(i) for i in x]
    if isinstance(x, dict):
        return {k: _norm(v) for k, v in x.items()}
    return x
