"""Entry point of worker interpreters:  python -m sim.worker '<json args>' [replay]"""
import os
import sys


def _quiet_imports():
    # importing the UBJSON serializer prints a harmless numpy/bjdata traceback to stderr
    fd = os.dup(2)
    dn = os.open(os.devnull, os.O_WRONLY)
    os.dup2(dn, 2)
    try:
        try:
            import autobahn.wamp.serializer  # noqa: F401
        except Exception:
            pass
    finally:
        os.dup2(fd, 2)
        os.close(dn)
        os.close(fd)


if __name__ == "__main__":
    from sim import harness
    if sys.argv[2:] and sys.argv[2] == "replay":
        sys.exit(harness.replay_main(sys.argv))
    if sys.argv[2:] and sys.argv[2] == "selftest":
        from sim import selftest
        sys.exit(selftest.main(sys.argv))
    sys.exit(harness.worker_main(sys.argv))
