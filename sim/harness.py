"""
Run executor, worker loop, minimiser.  Imported inside worker processes (one framework per
process).  The driver (run.py) never imports this module's framework-dependent parts.
"""

import hashlib
import importlib
import json
import os
import sys
import time
import traceback

from .core import Chooser, HarnessError, Run, run_world


def run_seed(base_seed, prop, variant, index):
    h = hashlib.blake2b(("%d|%s|%s|%d" % (base_seed, prop, variant, index)).encode(), digest_size=8).digest()
    return int.from_bytes(h, "big")


def load_check(prop):
    return importlib.import_module("checks.%s" % prop.lower())


class Result:
    __slots__ = ("choices", "violations", "digest", "probes", "faults", "steps", "sim_time", "abs_hash",
                 "nontrivial", "trace", "sample", "harness_error", "labels", "extra")


def execute(check, seed=None, replay=None, keep_trace=False, mode=None):
    """One simulated run.  Pure function of (seed | replay list) and the code."""
    ch = Chooser(seed=seed, replay=replay)
    if keep_trace:
        ch.labels = []
    run = Run(ch, keep_trace=keep_trace)
    res = Result()
    res.harness_error = None
    res.sample = None
    res.extra = None
    world = None
    try:
        world = check.World(run) if mode is None else check.World(run, mode)
        run_world(world, check.MAX_STEPS)
    except HarnessError as e:
        res.harness_error = "HarnessError: %s\n%s" % (e, traceback.format_exc())
    except RecursionError as e:  # pragma: no cover
        res.harness_error = "RecursionError: %s" % e
    except Exception as e:  # noqa
        # an exception propagating out of the world itself: harness defect unless the world
        # classified it (worlds catch what the code under test may raise).
        res.harness_error = "%s: %s\n%s" % (type(e).__name__, e, traceback.format_exc())
    res.choices = ch.choices
    res.labels = ch.labels
    res.violations = list(run.violations)
    res.digest = run.digest()
    res.probes = run.probes
    res.faults = run.faults
    res.steps = run.steps
    try:
        res.sim_time = float(run.now())
    except Exception:
        res.sim_time = 0.0
    res.abs_hash = run.abstract_hash()
    try:
        res.nontrivial = bool(world is not None and res.harness_error is None and world.nontrivial())
    except Exception:
        res.nontrivial = False
    res.trace = run.trace if keep_trace else None
    if keep_trace and world is not None and hasattr(world, "sample"):
        try:
            res.sample = world.sample()
        except Exception:
            res.sample = None
    if world is not None and hasattr(world, "teardown"):
        try:
            world.teardown()
        except Exception:
            pass
    return res


# ------------------------------------------------------------------------------------------
# known findings
# ------------------------------------------------------------------------------------------

def load_known(path):
    try:
        with open(path) as f:
            data = json.load(f)
    except FileNotFoundError:
        return []
    return data.get("findings", [])


def match_known(known, prop, clause, sig):
    for k in known:
        if k.get("property") != prop:
            continue
        if k.get("clause") != clause:
            continue
        ks = k.get("sig")
        if ks is not None and ks == sig:
            return k
        pre = k.get("sig_prefix")
        if pre is not None and sig.startswith(pre):
            return k
    return None


# ------------------------------------------------------------------------------------------
# minimiser: shrink the choice sequence while the same (clause, sig) still fires
# ------------------------------------------------------------------------------------------

def shrink(check, choices, target, mode=None, budget_s=25.0, max_execs=3000):
    t_end = time.time() + budget_s
    execs = [0]

    def fails(cand):
        execs[0] += 1
        r = execute(check, replay=cand, mode=mode)
        if r.harness_error:
            return None
        for c, s, _ in r.violations:
            if (c, s) == target:
                return r.choices  # normalised (possibly shorter/longer) sequence actually used
        return None

    def trim(c):
        c = list(c)
        while c and c[-1] == 0:
            c.pop()
        return c

    best = trim(choices)
    used = fails(best)
    if used is None:
        return list(choices), execs[0], False
    improved = True
    while improved and time.time() < t_end and execs[0] < max_execs:
        improved = False
        # 1. truncate tail (binary search)
        lo, hi = 0, len(best)
        while lo < hi and time.time() < t_end:
            mid = (lo + hi) // 2
            if fails(best[:mid]) is not None:
                hi = mid
            else:
                lo = mid + 1
        if hi < len(best):
            best = trim(best[:hi])
            improved = True
        # 2. delete chunks
        size = max(1, len(best) // 2)
        while size >= 1 and time.time() < t_end and execs[0] < max_execs:
            i = 0
            while i < len(best) and time.time() < t_end and execs[0] < max_execs:
                cand = best[:i] + best[i + size:]
                if fails(cand) is not None:
                    best = trim(cand)
                    improved = True
                else:
                    i += size
            size //= 2
        # 3. zero, then lower values
        for i in range(len(best)):
            if time.time() >= t_end or execs[0] >= max_execs:
                break
            v = best[i]
            if v == 0:
                continue
            for nv in (0, v // 2, v - 1):
                if nv >= v or nv < 0:
                    continue
                cand = best[:i] + [nv] + best[i + 1:]
                if fails(cand) is not None:
                    best = trim(cand)
                    improved = True
                    break
    return best, execs[0], True


def find_prelude(prop, fw, mode, choices, target, tmpdir, recent, max_fresh=10):
    """Smallest suffix / subset of the recent runs (found with a few fresh interpreters) after which `choices` shows the
    violation.  Returns (prelude, digest of the judged run) or None."""
    if not recent:
        return None
    hit, digest = fresh_has_violation(prop, fw, mode, choices, target, tmpdir, prelude=recent)
    if not hit:
        return None
    best, n = list(recent), 1
    # halve from the front while the violation stays, then try to drop single runs
    while len(best) > 1 and n < max_fresh:
        cand = best[len(best) // 2:]
        n += 1
        h, d = fresh_has_violation(prop, fw, mode, choices, target, tmpdir, prelude=cand)
        if h:
            best, digest = cand, d
        else:
            break
    i = 0
    while i < len(best) and len(best) > 1 and n < max_fresh:
        cand = best[:i] + best[i + 1:]
        n += 1
        h, d = fresh_has_violation(prop, fw, mode, choices, target, tmpdir, prelude=cand)
        if h:
            best, digest = cand, d
        else:
            i += 1
    return best, digest


# ------------------------------------------------------------------------------------------
# worker
# ------------------------------------------------------------------------------------------

_fresh_n = [0]


def fresh_has_violation(prop, fw, mode, choices, target, tmpdir, prelude=None):
    """Does this choice sequence show the violation (clause, sig) when run on its own in a fresh interpreter?
    (A run that only fails after other runs in the same process depends on process-global state, and its choice
    sequence is no replay.)  Returns (bool, digest or None)."""
    import subprocess
    _fresh_n[0] += 1
    path = os.path.join(tmpdir, "fresh-%d-%d.json" % (os.getpid(), _fresh_n[0]))
    with open(path, "w") as f:
        json.dump({"property": prop, "framework": fw, "mode": mode, "choices": choices, "prelude": prelude or []}, f)
    here = os.path.dirname(os.path.dirname(os.path.abspath(__file__)))
    try:
        p = subprocess.run([sys.executable, "-u", "-m", "sim.worker", json.dumps({"path": path}), "replay"], cwd=here,
                           capture_output=True, text=True, timeout=300)
    except Exception:  # noqa
        return False, None
    finally:
        try:
            os.unlink(path)
        except OSError:
            pass
    for line in p.stdout.splitlines():
        if line.startswith("REPLAY-RESULT "):
            res = json.loads(line[len("REPLAY-RESULT "):])
            hit = any(v[0] == target[0] and v[1] == target[1] for v in res["violations"])
            return hit, res["digest"]
    return False, None


def worker_main(argv):
    import faulthandler
    faulthandler.enable()
    args = json.loads(argv[1])
    prop = args["prop"]
    fw = args["fw"]
    variant = args["variant"]
    base_seed = args["seed"]
    windex = args["windex"]
    nworkers = args["nworkers"]
    max_runs = args["max_runs"]
    deadline = time.time() + args["budget_s"]
    out = args["out"]
    faulthandler.dump_traceback_later(args["budget_s"] + 120, exit=True)

    from . import backend
    backend.load(fw)
    check = load_check(prop)
    known = load_known(args["known"])
    modes = getattr(check, "MODES", [None])
    mode_for = getattr(check, "mode_for", None)
    tier = args.get("tier", "quick")

    stats = {
        "prop": prop, "fw": fw, "variant": variant, "windex": windex, "runs": 0, "steps": 0, "sim_time": 0.0,
        "nontrivial": 0, "probes": {}, "faults": {}, "violations": [], "known": {}, "harness_errors": [],
        "samples": [], "wall_s": 0.0, "first_seed": None, "last_index": None, "modes": {}, "nonrepro": [],
    }
    tmpdir = os.path.dirname(os.path.abspath(out))
    import collections
    recent = collections.deque(maxlen=24)  # (mode, choices) of the runs before the current one
    nonrepro = 0
    hashes = set()
    t0 = time.time()
    i = windex
    nmodes = len(modes)
    new_violation = None
    while stats["runs"] < max_runs and time.time() < deadline:
        if mode_for is not None:
            mode = mode_for(i, tier)
        else:
            mode = modes[(i // nworkers) % nmodes] if nmodes > 1 else modes[0]
        rs = run_seed(base_seed, prop, variant, i)
        if stats["first_seed"] is None:
            stats["first_seed"] = rs
        want_sample = len(stats["samples"]) < 2 and stats["runs"] in (3, 17)
        r = execute(check, seed=rs, keep_trace=False, mode=mode)
        stats["runs"] += 1
        stats["steps"] += r.steps
        stats["sim_time"] += r.sim_time
        stats["last_index"] = i
        stats["modes"][str(mode)] = stats["modes"].get(str(mode), 0) + 1
        for k, v in r.probes.items():
            stats["probes"][k] = stats["probes"].get(k, 0) + v
        for k, v in r.faults.items():
            stats["faults"][k] = stats["faults"].get(k, 0) + v
        if r.harness_error:
            stats["harness_errors"].append({"index": i, "seed": rs, "mode": mode, "error": r.harness_error[-3000:],
                                            "choices": r.choices})
            if len(stats["harness_errors"]) >= 3:
                break
        if r.nontrivial:
            stats["nontrivial"] += 1
            hashes.add(r.abs_hash)
        if want_sample:
            r2 = execute(check, replay=r.choices, keep_trace=True, mode=mode)
            stats["samples"].append({"seed": rs, "index": i, "mode": mode, "digest": r2.digest,
                                     "same_digest_on_replay": r2.digest == r.digest,
                                     "case": r2.sample, "trace_head": (r2.trace or [])[:60]})
            if r2.digest != r.digest:
                stats["harness_errors"].append({"index": i, "seed": rs, "mode": mode,
                                                "error": "replay digest differs from search digest", "choices": r.choices})
        for clause, sig, detail in r.violations:
            k = match_known(known, prop, clause, sig)
            if k is not None:
                key = clause + "|" + sig
                ent = stats["known"].setdefault(key, {"clause": clause, "sig": sig, "count": 0, "id": k.get("id"),
                                                      "what": k.get("what", "")})
                ent["count"] += 1
                continue
            cand = {"index": i, "seed": rs, "mode": mode, "clause": clause, "sig": sig, "detail": detail,
                    "choices": r.choices, "digest": r.digest}
            # a violation counts only if its choice sequence shows it on its own in a fresh interpreter
            hit, _ = fresh_has_violation(prop, fw, mode, r.choices, (clause, sig), tmpdir)
            if hit:
                new_violation = cand
            else:
                # not on its own - then with the runs that went before it in this process?  (state that outlives a
                # connection or session: class attributes, caches, shared defaults.)  A replay file may carry such a
                # history ("prelude"); it is cut down to the runs that are needed.
                pre = find_prelude(prop, fw, mode, r.choices, (clause, sig), tmpdir, list(recent))
                if pre is not None:
                    cand["prelude"], cand["prelude_digest"] = pre
                    new_violation = cand
                else:
                    nonrepro += 1
                    if len(stats["nonrepro"]) < 3:
                        stats["nonrepro"].append(cand)
            break
        if new_violation is not None or nonrepro >= 6:
            break
        recent.append({"mode": mode, "choices": r.choices})
        i += nworkers
    if new_violation is not None:
        v = new_violation
        target = (v["clause"], v["sig"])
        if v.get("prelude"):
            # (the judged run is kept as it was found: in this used process it cannot be minimised on its own)
            best, execs = v["choices"], 0
            v["minimised"] = False
        else:
            best, execs, ok = shrink(check, v["choices"], target, mode=v["mode"],
                                     budget_s=args.get("shrink_s", 25.0))
            hit, _ = fresh_has_violation(prop, fw, v["mode"], best, target, tmpdir)
            v["minimised"] = True
            if not hit:
                # the minimised sequence only fails in this (used) process: keep the original one, which does replay
                best = v["choices"]
                v["minimised"] = False
        r3 = execute(check, replay=best, keep_trace=True, mode=v["mode"])
        v["min_choices"] = best
        v["min_execs"] = execs
        v["min_digest"] = v.get("prelude_digest") or r3.digest
        v["min_trace"] = r3.trace
        v["min_labels"] = r3.labels
        v["min_violations"] = [list(x) for x in r3.violations]
        stats["violations"].append(v)
    stats["wall_s"] = time.time() - t0
    stats["hashes"] = sorted(hashes)
    with open(out, "w") as f:
        json.dump(stats, f)
    faulthandler.cancel_dump_traceback_later()
    return 0


def replay_main(argv):
    """Replay a replay file in this (fresh) interpreter; prints the verdict as JSON."""
    args = json.loads(argv[1])
    with open(args["path"]) as f:
        rep = json.load(f)
    from . import backend
    backend.load(rep["framework"])
    check = load_check(rep["property"])
    # a history: earlier runs of the same process (connections / sessions that came and went before the judged one);
    # they are executed first, what they report is not judged
    for pr in rep.get("prelude") or []:
        execute(check, replay=pr["choices"], mode=pr.get("mode"))
    r = execute(check, replay=rep["choices"], keep_trace=True, mode=rep.get("mode"))
    out = {"digest": r.digest, "violations": [list(v) for v in r.violations], "harness_error": r.harness_error,
           "trace": r.trace if args.get("trace") else None, "labels": r.labels if args.get("trace") else None}
    print("REPLAY-RESULT " + json.dumps(out))
    return 0


