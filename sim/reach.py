"""
Reach of the anchored code: which executable lines of the files a property is anchored in are executed by that
property's check.   python -m sim.reach '<json: prop, fw, n, seed, files, out>'

Uses sys.monitoring (LINE events, each location disabled after its first hit, so the overhead vanishes after a few
runs).  Report per function of each anchor file: executable lines, lines hit, the line numbers never reached.  This is
a measure of what the workloads drive, not an oracle: an unreached branch is a hint where a workload dimension is
missing (or where code belongs to a feature outside the property).
"""

import json
import os
import sys


def executable_lines(path):
    """{qualname: set(lines)} for every function/method of a source file (module-level code under '<module>')."""
    with open(path) as f:
        src = f.read()
    top = compile(src, path, "exec")
    out = {}

    def walk(code, qual):
        lines = set(l for _, _, l in code.co_lines() if l is not None)
        # the 'def' line itself belongs to the enclosing scope
        out.setdefault(qual, set()).update(lines)
        for c in code.co_consts:
            if hasattr(c, "co_code"):
                name = c.co_qualname if hasattr(c, "co_qualname") else c.co_name
                walk(c, name)
    walk(top, "<module>")
    return out


def main(argv):
    args = json.loads(argv[1])
    from . import backend
    backend.load(args["fw"])
    from .harness import execute, load_check, run_seed
    check = load_check(args["prop"])
    import autobahn
    root = os.path.dirname(os.path.abspath(autobahn.__file__))
    files = [os.path.join(os.path.dirname(root), f[len("src/"):] if f.startswith("src/") else f) for f in args["files"]]
    want = set(os.path.realpath(f) for f in files)
    hit = {}
    mon = sys.monitoring
    TOOL = mon.COVERAGE_ID
    mon.use_tool_id(TOOL, "verif-reach")

    def on_line(code, line):
        fn = code.co_filename
        s = hit.get(fn)
        if s is None:
            s = hit[fn] = set()
        s.add(line)
        return mon.DISABLE

    mon.register_callback(TOOL, mon.events.LINE, on_line)
    mon.set_events(TOOL, mon.events.LINE)
    modes = getattr(check, "MODES", [None])
    n = args["n"]
    stride = args.get("stride", 997)
    for i in range(n):
        mode = check.mode_for(i * stride, "quick") if hasattr(check, "mode_for") else modes[i % len(modes)]
        s = run_seed(args.get("seed", 1), args["prop"], "reach-" + args["fw"], i)
        execute(check, seed=s, mode=mode)
    mon.set_events(TOOL, 0)
    mon.free_tool_id(TOOL)
    res = {}
    if args.get("all_files"):
        files = [fn for fn in hit if os.path.realpath(fn).startswith(os.path.realpath(root) + os.sep)]
    for f in files:
        rf = os.path.realpath(f)
        if not os.path.exists(rf):
            continue
        got = set()
        for fn, lines in hit.items():
            if os.path.realpath(fn) == rf:
                got |= lines
        res[os.path.relpath(rf, os.path.dirname(root))] = {"hit": sorted(got)}
    with open(args["out"], "w") as f:
        json.dump(res, f)
    return 0


if __name__ == "__main__":
    sys.exit(main(sys.argv))
