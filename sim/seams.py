"""
Seeded shims for the randomness / wall-clock seams of autobahn.  Module attributes are
rebound per module (``protocol.random`` etc.); no process-global is patched.

``install()`` is called once per worker process after the txaio backend was chosen;
``reseed(run_seed, clock)`` at the start of every run.
"""

import random as _random
import types


class _SeededRandom(_random.Random):
    """``random`` module stand-in: arg-less ``seed()`` (called by the factory constructors
    to re-seed from the OS) is a no-op so the run stays a function of its seed."""

    def seed(self, a=None, version=2):  # noqa
        if a is None:
            return
        _random.Random.seed(self, a, version)


class Seams:
    def __init__(self):
        self.rng = _SeededRandom(0)
        self.wall_offset_ns = 1_700_000_000 * 10**9
        self.clock = lambda: 0.0
        self.wall_jump_ns = 0
        self.installed = False

    # replacements ---------------------------------------------------------------------
    def urandom(self, n):
        return self.rng.randbytes(n) if n > 0 else b""

    def time_ns(self):
        return self.wall_offset_ns + self.wall_jump_ns + int(self.clock() * 10**9)

    def time(self):
        return self.time_ns() / 1e9

    def install(self):
        if self.installed:
            return
        import os as _os
        import time as _time
        from autobahn.websocket import protocol

        fake_os = types.SimpleNamespace(urandom=self.urandom, environ=_os.environ, path=_os.path, getpid=lambda: 4242)
        fake_time = types.SimpleNamespace(time_ns=self.time_ns, time=self.time, perf_counter=_time.perf_counter,
                                          monotonic=_time.monotonic)
        protocol.random = self.rng
        protocol.os = fake_os
        protocol.time = fake_time
        try:
            from autobahn.wamp import component
            component.random = self.rng
        except Exception:  # pragma: no cover
            pass
        try:
            from autobahn.wamp import cryptobox
            if getattr(cryptobox, "HAS_CRYPTOBOX", False):
                cryptobox.random = lambda n=32: self.urandom(n)
        except Exception:  # pragma: no cover
            pass
        try:
            import autobahn.util as autil
            self._util = autil
        except Exception:  # pragma: no cover
            self._util = None
        self.installed = True

    def reseed(self, seed, clock):
        _random.Random.seed(self.rng, seed)
        self.clock = clock
        self.wall_jump_ns = 0


SEAMS = Seams()
