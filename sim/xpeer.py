"""
Cross-framework peer: a real WAMP transport endpoint of the *other* networking framework, hosted in a helper
interpreter (txaio.use_twisted() and txaio.use_asyncio() exclude each other within one process).

The worker that owns the run (framework A) keeps every scheduling decision: it decides when which octets travel.
The helper (framework B) is a deterministic function of the commands it is sent: per run it builds a fresh
reactor/loop, one real endpoint against a RawPeer, and after each command runs its zero-delay work to quiescence
and reports what the endpoint wrote and what its session saw.

  python -m sim.xpeer <tx|aio>          (stdin/stdout: length-prefixed pickles)

commands:  ("reset", cfg)   ("feed", octets)   ("send", marshalled message)   ("fin",)   ("quit",)
reply:     {"out": octets written since the last reply, "events": [...], "gone": bool, "escaped": [...], "error": str?}
"""

import os
import pickle
import struct
import subprocess
import sys
import traceback


def _write(f, obj):
    data = pickle.dumps(obj, protocol=4)
    f.write(struct.pack("!L", len(data)) + data)
    f.flush()


def _read(f):
    hdr = f.read(4)
    if len(hdr) < 4:
        return None
    n = struct.unpack("!L", hdr)[0]
    data = f.read(n)
    if len(data) < n:
        return None
    return pickle.loads(data)


# ------------------------------------------------------------------------------------------------------------
# client side (lives in the worker that owns the run)
# ------------------------------------------------------------------------------------------------------------

class Helper:
    """Handle on the helper interpreter of the other framework (one per worker process, started on first use)."""

    _inst = {}

    @classmethod
    def get(cls, fw):
        h = cls._inst.get(fw)
        if h is None or h.proc.poll() is not None:
            h = cls._inst[fw] = cls(fw)
        return h

    def __init__(self, fw):
        here = os.path.dirname(os.path.dirname(os.path.abspath(__file__)))
        self.fw = fw
        self.proc = subprocess.Popen([sys.executable, "-u", "-m", "sim.xpeer", fw], cwd=here, stdin=subprocess.PIPE,
                                     stdout=subprocess.PIPE, stderr=subprocess.DEVNULL)

    def call(self, *cmd):
        from .core import HarnessError
        try:
            _write(self.proc.stdin, cmd)
            resp = _read(self.proc.stdout)
        except (BrokenPipeError, OSError) as e:
            resp = None
            err = repr(e)
        else:
            err = "helper closed its pipe"
        if resp is None:
            Helper._inst.pop(self.fw, None)
            raise HarnessError("cross-framework helper (%s) died: %s" % (self.fw, err))
        if resp.get("error"):
            raise HarnessError("cross-framework helper (%s) failed: %s" % (self.fw, resp["error"][-1500:]))
        return resp


# ------------------------------------------------------------------------------------------------------------
# helper side
# ------------------------------------------------------------------------------------------------------------

def main(argv):
    fw = argv[1]
    inp, out = sys.stdin.buffer, sys.stdout.buffer
    sys.stdout = sys.stderr  # nothing but replies on the reply channel
    from . import backend
    backend.load(fw)
    from .core import Chooser, Run
    from worlds.stack import StackWorld, StubSession, make_ser
    from worlds.ws import exc_site

    class Remote(StackWorld):
        PROP = "X"

        def on_escape(self, ep, where, exc):
            self.escaped.append((where, type(exc).__name__, exc_site(exc)))

    state = {"w": None, "sess": None, "cur_out": 0, "cur_ev": 0}

    def reply():
        w, sess = state["w"], state["sess"]
        w.pump_all()
        data = bytes(w.peer.received[state["cur_out"]:])
        state["cur_out"] = len(w.peer.received)
        evs = []
        for ev in sess.events[state["cur_ev"]:]:
            if ev[0] == "onMessage":
                evs.append(("onMessage", ev[1].marshal()))
            else:
                evs.append(tuple(ev))
        state["cur_ev"] = len(sess.events)
        esc, w.escaped = w.escaped, []
        t = w.e.t
        return {"out": data, "events": evs, "gone": bool(t.is_gone()), "escaped": esc, "saw_fin": w.peer.saw_fin,
                "saw_rst": w.peer.saw_rst, "attached": getattr(w.e.p, "_session", None) is not None,
                "serializer": getattr(getattr(w.e.p, "_serializer", None), "SERIALIZER_ID", None)}

    def handle(cmd):
        op = cmd[0]
        if op == "reset":
            cfg = cmd[1]
            run = Run(Chooser(replay=[cfg["seamseed"]]))
            w = Remote(run)
            w.escaped = []
            w.make_reactor(0.0)
            sess = StubSession(w, "R")
            sers = [make_ser(n, b) for n, b in cfg["sers"]]
            w.build_stack_raw(cfg["kind"], cfg["is_server"], lambda: sess, sers, cfg.get("opts"))
            if cfg.get("aio_rs_exp") and fw == "aio" and cfg["kind"] == "rs":
                w.e.p._length_exp = cfg["aio_rs_exp"]
                w.e.p.max_length = 2 ** (9 + cfg["aio_rs_exp"])
            state.update(w=w, sess=sess, cur_out=0, cur_ev=0)
            w.start(w.e)
            return reply()
        w, sess = state["w"], state["sess"]
        if op == "feed":
            if not w.e.t.is_gone() and w.e.t.can_read():
                w.peer.send(cmd[1])
            return reply()
        if op == "send":
            from autobahn.wamp.serializer import Serializer
            lst = cmd[1]
            res = {"sent": None}
            try:
                msg = Serializer.MESSAGE_TYPE_MAP[lst[0]].parse(lst)
            except Exception as e:  # noqa
                return {"error": "cannot rebuild message %r: %r" % (lst[:3], e)}
            try:
                w.fw.call(w, sess._transport.send, msg)
                res["sent"] = True
            except Exception as e:  # noqa
                res["sent"] = False
                res["exc"] = type(e).__name__
            r = reply()
            r.update(res)
            return r
        if op == "fin":
            w.peer.fin()
            return reply()
        return {"error": "unknown command %r" % (op,)}

    while True:
        cmd = _read(inp)
        if cmd is None or cmd[0] == "quit":
            break
        try:
            resp = handle(cmd)
        except Exception:  # noqa
            resp = {"error": traceback.format_exc()}
        _write(out, resp)
    return 0


if __name__ == "__main__":
    sys.exit(main(sys.argv))
