"""
Core of the deterministic simulator: choice sequence, run context (event log, digest,
probes, fault counters, violations) and the generic step loop.

Nothing in here imports txaio, Twisted, asyncio or autobahn.
"""

import hashlib
import random

MASK64 = (1 << 64) - 1


class Violation(Exception):
    """An oracle clause failed.  ``clause`` is the stable clause name
    (``C05.onclose-once``), ``sig`` a short stable signature of the failing site or
    pattern (used for known-finding matching and minimisation), ``detail`` free text."""

    def __init__(self, clause, sig, detail=""):
        Exception.__init__(self, "%s [%s] %s" % (clause, sig, detail))
        self.clause = clause
        self.sig = sig
        self.detail = detail


class HarnessError(Exception):
    """The simulator itself is in a state it must never reach (not a property violation)."""


class Chooser:
    """Every nondeterministic decision of a run goes through ``choose``.

    In search mode the values come from one ``random.Random(seed)``; in replay mode from a
    recorded list (exhausted => 0).  Value 0 is always the simplest alternative."""

    def __init__(self, seed=None, replay=None):
        self.replay = list(replay) if replay is not None else None
        self.rng = random.Random(seed) if replay is None else None
        self.pos = 0
        self.choices = []
        self.labels = None  # set to [] to record labels (replay/debug only)

    def choose(self, n, label=None, weights=None):
        """Return an int in [0, n).  ``weights`` (len n) biases search mode only."""
        if n <= 1:
            return 0
        if self.replay is not None:
            if self.pos < len(self.replay):
                v = self.replay[self.pos]
                if v >= n or v < 0:
                    v = v % n
            else:
                v = 0
            self.pos += 1
        else:
            if weights is not None:
                tot = 0
                for w in weights:
                    tot += w
                x = self.rng.random() * tot
                v = n - 1
                acc = 0
                for i, w in enumerate(weights):
                    acc += w
                    if x < acc:
                        v = i
                        break
            else:
                v = self.rng.randrange(n)
        self.choices.append(v)
        if self.labels is not None:
            self.labels.append((label, n, v))
        return v

    # conveniences -------------------------------------------------------------------
    def flag(self, label=None, p=0.5):
        """True with probability p (value 1); 0/False is the simple alternative."""
        return self.choose(2, label, (1.0 - p, p)) == 1

    def pick(self, seq, label=None, weights=None):
        return seq[self.choose(len(seq), label, weights)]

    def low(self, n, label=None, decay=0.6):
        """Int in [0, n) geometrically biased towards 0."""
        if n <= 1:
            return 0
        w = []
        x = 1.0
        for _ in range(n):
            w.append(x)
            x *= decay
        return self.choose(n, label, w)

    def rint(self, lo, hi, label=None):
        """Uniform int in [lo, hi]."""
        return lo + self.choose(hi - lo + 1, label)


def short(b, n=12):
    """Stable, compact rendering of a bytes value for traces."""
    if b is None:
        return None
    if len(b) <= n:
        return bytes(b).hex()
    return "%s..%d:%s" % (bytes(b[:6]).hex(), len(b), hashlib.blake2b(bytes(b), digest_size=4).hexdigest())


class Run:
    """Per-run context shared by world, transports and oracles."""

    def __init__(self, chooser, keep_trace=False):
        self.ch = chooser
        self.keep_trace = keep_trace
        self.trace = []
        self._h = hashlib.blake2b(digest_size=16)
        self.nevents = 0
        self.probes = {}
        self.faults = {}
        self.violations = []
        self.steps = 0
        self.now = lambda: 0.0  # set by the world to the virtual clock
        self.abs = hashlib.blake2b(digest_size=8)  # abstract-trace hash
        self.fatal = False

    # event log ----------------------------------------------------------------------
    def log(self, *ev):
        s = repr(ev)
        self._h.update(s.encode("utf8", "backslashreplace"))
        self.nevents += 1
        if self.keep_trace:
            self.trace.append(s)

    def digest(self):
        return self._h.hexdigest()

    def abstract(self, *item):
        self.abs.update(repr(item).encode())

    def abstract_hash(self):
        return int.from_bytes(self.abs.digest(), "big")

    # reach ---------------------------------------------------------------------------
    def probe(self, name, n=1):
        self.probes[name] = self.probes.get(name, 0) + n

    def fault(self, name, n=1):
        self.faults[name] = self.faults.get(name, 0) + n

    # oracles --------------------------------------------------------------------------
    def violate(self, clause, sig, detail="", fatal=False):
        self.log("VIOLATION", clause, sig)
        self.violations.append((clause, sig, detail))
        if fatal:
            self.fatal = True

    def require(self, cond, clause, sig, detail=""):
        if not cond:
            self.violate(clause, sig, detail)
        return cond


class SetupViolation(Exception):
    """The fault-free set-up phase of a world failed in a way only the library under test can be responsible for
    (a canned valid handshake did not open the connection, a session could not join over a healthy transport...).
    Reported as a violation of the property's clause '<PROP>.setup', not as a harness error."""

    def __init__(self, sig, detail=""):
        Exception.__init__(self, "%s: %s" % (sig, detail))
        self.sig = sig
        self.detail = detail


def run_world(world, max_steps):
    """Generic step loop: build, steps (choose one enabled action, run it, check step
    invariants), drain, final oracles.  Returns nothing; results are on world.run."""
    run = world.run
    try:
        world.build()
    except SetupViolation as e:
        run.violate("%s.setup" % getattr(world, "PROP", "C00"), e.sig, e.detail, fatal=True)
        return
    while run.steps < max_steps and not run.fatal:
        acts = world.actions()
        if not acts:
            break
        if len(acts) == 1:
            i = 0
        else:
            i = run.ch.choose(len(acts), "act", [a[0] for a in acts])
        w, label, fn = acts[i]
        run.steps += 1
        run.log("step", run.steps, label)
        fn()
        run.abstract(label.split(':', 1)[0], world.abstract_state())
        world.check_step()
        if len(run.violations) > 8:
            break
    if not run.fatal:
        world.drain()
        world.final()
