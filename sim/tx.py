"""
Twisted backend of the simulator: virtual-time reactor, in-memory transport that follows
twisted.internet.tcp.Connection / abstract.FileDescriptor semantics, and a link joining two
of them (or one of them and a scripted raw peer).

Fidelity rules (from Twisted 26.4 sources, see DESIGN.md 2.3):
  * write() only buffers; octets enter the link at a later ``flush`` action (doWrite).
  * loseConnection(): reading stops at once; buffered octets (including those written
    after the call but before the buffer drained) are flushed, then
    connectionLost(ConnectionDone) is delivered from the flushing turn.
  * abortConnection(): reading and writing stop at once, unflushed octets are dropped,
    connectionLost(ConnectionAborted) arrives through reactor.callLater(0, ...).
  * peer FIN after the remaining octets -> connectionLost(ConnectionDone); peer RST -> a
    prefix of the in-flight octets, then connectionLost(ConnectionLost).
  * an exception escaping dataReceived is recorded and the connection is dropped with
    connectionLost(Failure(exc)) like the reactor's _doReadOrWrite does.
"""

import txaio

txaio.use_twisted()

from twisted.internet import address, error, task  # noqa: E402
from twisted.internet.interfaces import IStreamClientEndpoint, ITransport  # noqa: E402
from twisted.internet import defer  # noqa: E402
from twisted.python import failure  # noqa: E402
from zope.interface import implementer  # noqa: E402

from .core import HarnessError, short  # noqa: E402
from .net import Pipe, RawPeer  # noqa: E402

FRAMEWORK = "tx"


class SimReactor(task.Clock):
    """IReactorTime on a virtual clock.  Timers fire in (time, insertion) order."""

    def next_time(self):
        calls = [c for c in self.getDelayedCalls()]
        if not calls:
            return None
        return min(c.getTime() for c in calls)

    def fire_next(self):
        """Jump to the earliest pending timer and run everything due at that instant."""
        t = self.next_time()
        if t is None:
            return False
        self.advance(max(0.0, t - self.seconds()))
        return True

    def pending(self):
        return len(self.getDelayedCalls())

    escaped = None

    def callLater(self, delay, callable, *args, **kw):
        # as ReactorBase.callLater
        assert delay >= 0, "%s is not greater than or equal to 0 seconds" % (delay,)
        return task.Clock.callLater(self, delay, callable, *args, **kw)

    def advance(self, amount):
        """As task.Clock.advance, but an exception raised by a delayed call is caught and
        recorded (the real reactor logs it and carries on)."""
        self.rightNow += amount
        self._sortCalls()
        while self.calls and self.calls[0].getTime() <= self.seconds():
            call = self.calls.pop(0)
            call.called = 1
            try:
                call.func(*call.args, **call.kw)
            except Exception as e:  # noqa
                if self.escaped is None:
                    self.escaped = []
                self.escaped.append(("timer", e))
            self._sortCalls()

    # things the library or Twisted helpers may poke at
    running = True

    def callFromThread(self, f, *a, **kw):  # pragma: no cover
        raise HarnessError("callFromThread used under simulation")

    def addSystemEventTrigger(self, *a, **kw):
        return None

    def removeSystemEventTrigger(self, *a, **kw):
        return None

    def stop(self):
        self.running = False


@implementer(ITransport)
class SimTxTransport:
    """One end of a simulated TCP connection, Twisted flavour."""

    def __init__(self, run, reactor, name, is_server, peer_port=9000):
        self.run = run
        self.reactor = reactor
        self.name = name
        self.protocol = None
        self.link_out = None  # Pipe we write into
        self.link_in = None  # Pipe we read from
        self.connected = True
        self.disconnecting = False
        self.aborting = False
        self.disconnected = False
        self.reading = True
        self.outbuf = bytearray()  # written, not yet flushed
        self.written_total = 0
        self.flushed_total = 0
        self.calls_after_gone = []  # names of transport methods invoked after connectionLost was delivered
        self.observers = []  # callables(data) seeing every accepted write()
        self.lost_reason = None
        self.escaped = []  # exceptions that escaped protocol callbacks
        if is_server:
            self._host = address.IPv4Address("TCP", "10.0.0.1", peer_port)
            self._peer = address.IPv4Address("TCP", "10.0.0.2", 40000)
        else:
            self._host = address.IPv4Address("TCP", "10.0.0.2", 40000)
            self._peer = address.IPv4Address("TCP", "10.0.0.1", peer_port)

    # --- ITransport --------------------------------------------------------------------
    def write(self, data):
        if not isinstance(data, bytes):
            raise TypeError("Data must be bytes")
        self.run.log("write", self.name, len(data), short(data), self.connected, self.aborting)
        # observers see every octet the protocol hands over, accepted or not: whether the
        # transport still takes it is not observable by the protocol
        if data:
            for o in self.observers:
                o(data)
        if not self.connected:
            return
        if data:
            self.written_total += len(data)
            if not self.aborting:
                self.outbuf += data

    def writeSequence(self, seq):
        for d in seq:
            self.write(d)

    def _after_gone(self, name):
        if self.disconnected:
            self.calls_after_gone.append(name)

    def loseConnection(self):
        self._after_gone("loseConnection")
        self.run.log("loseConnection", self.name, self.connected, self.disconnecting)
        if self.connected and not self.disconnecting and not self.aborting:
            self.disconnecting = True
            self.reading = False

    def abortConnection(self):
        self._after_gone("abortConnection")
        self.run.log("abortConnection", self.name, self.disconnected, self.aborting)
        if self.disconnected or self.aborting:
            return
        self.aborting = True
        self.reading = False
        self.outbuf = bytearray()
        self.reactor.callLater(0, self._connection_lost, failure.Failure(error.ConnectionAborted()), True)

    def getPeer(self):
        return self._peer

    def getHost(self):
        return self._host

    def setTcpNoDelay(self, enabled):
        pass

    def getTcpNoDelay(self):
        return True

    def setTcpKeepAlive(self, enabled):
        pass

    def registerProducer(self, producer, streaming):
        self._after_gone("registerProducer")

    def unregisterProducer(self):
        self._after_gone("unregisterProducer")

    def pauseProducing(self):
        self._after_gone("pauseProducing")
        self.reading = False

    def resumeProducing(self):
        self._after_gone("resumeProducing")
        if self.connected and not self.disconnecting and not self.aborting:
            self.reading = True

    def stopProducing(self):
        self.loseConnection()

    # --- driven by the link ---------------------------------------------------------------
    def needs_flush(self):
        return self.connected and not self.aborting and (len(self.outbuf) > 0 or self.disconnecting)

    def flush(self, k=None):
        """doWrite: move (up to k) buffered octets into the link; finish a graceful close."""
        if not self.needs_flush():
            return
        n = len(self.outbuf) if k is None else min(k, len(self.outbuf))
        if n:
            chunk = bytes(self.outbuf[:n])
            del self.outbuf[:n]
            self.flushed_total += n
            self.link_out.push(chunk)
        if self.disconnecting and not self.outbuf:
            self.link_out.close_write()
            self._connection_lost(failure.Failure(error.ConnectionDone()), False)

    def _connection_lost(self, reason, rst):
        if self.disconnected:
            return
        self.disconnected = True
        self.connected = False
        self.reading = False
        self.lost_reason = reason
        if not rst and len(self.link_in.buf) > 0 and not self.link_out.fin:
            # closing a socket with unread received data makes the kernel send RST, not FIN
            rst = self.run.ch.flag("rst-on-close-unread", 0.3)
            if rst:
                self.run.fault("rst-on-close-with-unread-data")
        if rst:
            self.link_out.reset()
        else:
            self.link_out.close_write()
        self.link_in.receiver_gone()
        p = self.protocol
        self.run.log("connectionLost", self.name, type(reason.value).__name__)
        try:
            p.connectionLost(reason)
        except Exception as e:  # noqa
            self.escaped.append(("connectionLost", e))
            self.run.log("escaped", self.name, "connectionLost", type(e).__name__)

    def deliver(self, data):
        """doRead with ``data``."""
        if not self.reading or not self.connected:
            raise HarnessError("deliver to a non-reading transport")
        try:
            self.protocol.dataReceived(data)
        except Exception as e:  # noqa
            self.escaped.append(("dataReceived", e))
            self.run.log("escaped", self.name, "dataReceived", type(e).__name__)
            if not self.disconnected:
                # reactor._doReadOrWrite: log.err(); _disconnectSelectable(why)
                self.outbuf = bytearray()
                self._connection_lost(failure.Failure(e), True)

    def can_read(self):
        return self.connected and self.reading

    def is_gone(self):
        return self.disconnected

    def peer_fin(self):
        """recv() returned b'': reactor -> readConnectionLost -> connectionLost(ConnectionDone)."""
        self.outbuf = bytearray()
        self._connection_lost(failure.Failure(error.ConnectionDone()), False)

    def peer_rst(self):
        self.outbuf = bytearray()
        self._connection_lost(failure.Failure(error.ConnectionLost()), True)


def connect_pair(run, reactor, client_factory, server_factory, names=("C", "S")):
    """Build both protocols, join them with two pipes, call makeConnection on both
    (server first, as accept() precedes the client's connect callback or not is
    unobservable)."""
    tc = SimTxTransport(run, reactor, names[0], False)
    ts = SimTxTransport(run, reactor, names[1], True)
    c2s = Pipe(run, names[0] + ">" + names[1])
    s2c = Pipe(run, names[1] + ">" + names[0])
    tc.link_out, tc.link_in = c2s, s2c
    ts.link_out, ts.link_in = s2c, c2s
    ps = server_factory.buildProtocol(ts.getPeer())
    pc = client_factory.buildProtocol(tc.getPeer())
    ts.protocol = ps
    tc.protocol = pc
    return tc, ts, pc, ps, c2s, s2c


def connect_raw(run, reactor, factory, is_server, name="E"):
    """One real endpoint (built by ``factory``) against a RawPeer."""
    t = SimTxTransport(run, reactor, name, is_server)
    peer = RawPeer(run)
    e2p = Pipe(run, name + ">P")
    p2e = Pipe(run, "P>" + name)
    t.link_out, t.link_in = e2p, p2e
    peer.link_out, peer.link_in = p2e, e2p
    e2p.sink = peer
    proto = factory.buildProtocol(t.getPeer())
    t.protocol = proto
    return t, proto, peer, e2p, p2e


@implementer(IStreamClientEndpoint)
class SimEndpoint:
    """IStreamClientEndpoint whose connect() outcome is decided by a callback."""

    def __init__(self, on_connect):
        self.on_connect = on_connect

    def connect(self, factory):
        return self.on_connect(factory)


# --- framework-neutral driver interface used by the worlds ---------------------------------

def make_connection(t):
    t.protocol.makeConnection(t)


def call(world, fn, *a):
    return fn(*a)


def loop_actions(world):
    return []


def loop_drain(world):
    return False


def next_timer(reactor):
    return reactor.next_time()


def fire_next(world):
    t = world.reactor.next_time()
    world.run.log("tick", round(t, 6))
    world.reactor.fire_next()


def advance(world, dt):
    world.run.log("advance", round(dt, 6))
    world.reactor.advance(dt)


def deliver(world, t, chunk):
    t.deliver(chunk)


def deliver_burst(world, t, chunks):
    """Several reads in a row with nothing in between (Twisted: simply consecutive dataReceived calls)."""
    for c in chunks:
        if not t.can_read():
            break
        t.deliver(c)


def deliver_multi(world, items):
    """Several sockets readable in one reactor iteration (Twisted: doRead() of one after the other; a protocol is done
    with its octets when dataReceived() returns, so nothing distinguishes this from consecutive iterations)."""
    for t, c in items:
        t.deliver(c)


def peer_fin(world, t):
    t.peer_fin()


def peer_rst(world, t):
    t.peer_rst()


def factory_kw(reactor):
    return {"reactor": reactor}


def flushed_total(t):
    return t.flushed_total


def fw_setup(reactor):
    """Point txaio at the virtual reactor (must happen before any timer is created)."""
    txaio.config.loop = reactor


def new_reactor():
    r = SimReactor()
    fw_setup(r)
    return r


def future_state(f):
    """('pending',) / ('ok', value) / ('err', exc) for a Deferred, without consuming it."""
    if not isinstance(f, defer.Deferred):
        return ("value", f)
    if not f.called:
        return ("pending",)
    r = f.result
    if isinstance(r, failure.Failure):
        return ("err", r.value)
    return ("ok", r)


def new_future(world):
    return defer.Deferred()


def resolve_future(f, value):
    if not f.called:
        f.callback(value)


def reject_future(f, exc):
    if not f.called:
        f.errback(exc)


def cancel_future(f):
    f.cancel()


class Watch:
    """Observes a Deferred from the moment the API returned it: first result wins, failures are
    consumed (no 'Unhandled error in Deferred' noise), later chaining by the library cannot hide it."""

    def __init__(self, d, passthrough=False):
        self.d = d
        self.st = ("pending",)
        self.fired = 0
        self.passthrough = passthrough  # an application whose callback lets a failure pass on (addBoth that returns its argument)
        if isinstance(d, defer.Deferred):
            d.addBoth(self._fire)
        else:
            self.st = ("value", d)

    def _fire(self, r):
        self.fired += 1
        if self.fired == 1:
            self.st = ("err", r.value) if isinstance(r, failure.Failure) else ("ok", r)
        return r if self.passthrough else None

    def state(self):
        return self.st


def watch(f, passthrough=False):
    return Watch(f, passthrough)
