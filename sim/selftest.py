"""Determinism self-test worker: run n seeds twice in this process and once more from the
recorded choice sequence; dump the digests so that the driver can compare interpreters."""
import json


def main(argv):
    args = json.loads(argv[1])
    from . import backend
    backend.load(args["fw"])
    from .harness import execute, load_check, run_seed
    check = load_check(args["prop"])
    modes = getattr(check, "MODES", [None])
    digests = []
    twice = True
    replay_same = True
    for i in range(args["n"]):
        mode = check.mode_for(i * 997, "quick") if hasattr(check, "mode_for") else modes[i % len(modes)]
        s = run_seed(args["seed"], args["prop"], args["variant"], i)
        r1 = execute(check, seed=s, mode=mode)
        r2 = execute(check, seed=s, mode=mode)
        r3 = execute(check, replay=r1.choices, mode=mode)
        if r1.digest != r2.digest or r1.choices != r2.choices:
            twice = False
        if r3.digest != r1.digest:
            replay_same = False
        digests.append([r1.digest, len(r1.choices), r1.steps, r1.harness_error is not None])
    with open(args["out"], "w") as f:
        json.dump({"digests": digests, "twice_same": twice, "replay_same": replay_same}, f)
    return 0
