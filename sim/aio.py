"""
asyncio backend of the simulator: a virtual-time BaseEventLoop whose selector phase is fed
by the world, an in-memory transport that follows asyncio.selector_events
._SelectorSocketTransport semantics, and the same driver interface as sim.tx.

Fidelity rules (CPython 3.12 base_events / selector_events, see DESIGN.md 2.3):
  * the ready queue is FIFO and never permuted; network events enter only in the selector
    phase of _run_once() (appended behind callbacks that are already ready); timers that are
    due are appended after them; callbacks scheduled while an iteration runs wait for the
    next iteration.  One world action = at most one _run_once().
  * write() hands octets to the kernel at once (they enter the link immediately);
    close()/abort() stop reading at once and deliver connection_lost(None) through
    call_soon; after them write() is ignored.
  * peer FIN: eof_received() -> (None) -> close() -> connection_lost(None);
    peer RST: connection_lost(ConnectionResetError) through call_soon.
  * an exception escaping data_received() is a fatal transport error (connection_lost(exc));
    an exception escaping any other loop callback goes to the loop's exception handler and
    the connection stays up - both are recorded.
"""

import asyncio
import heapq
from asyncio import base_events, events

import txaio

txaio.use_asyncio()

from .core import HarnessError, short  # noqa: E402
from .net import Pipe, RawPeer  # noqa: E402

FRAMEWORK = "aio"


def _set_result_unless_cancelled(fut, result):
    if fut.cancelled():
        return
    fut.set_result(result)


class _Selector:
    def __init__(self, loop):
        self.loop = loop

    def select(self, timeout=None):
        ev = self.loop._sim_io
        self.loop._sim_io = []
        return ev

    def close(self):
        pass


class SimLoop(base_events.BaseEventLoop):
    def __init__(self):
        base_events.BaseEventLoop.__init__(self)
        self._vtime = 0.0
        self._sim_io = []
        self._selector = _Selector(self)
        self._clock_resolution = 1e-9
        self.escaped = None
        self.set_exception_handler(self._on_exception)
        self.iterations = 0

    # --- virtual time --------------------------------------------------------------------------
    def time(self):
        return self._vtime

    def seconds(self):
        return self._vtime

    # --- BaseEventLoop plumbing ---------------------------------------------------------------------
    def _process_events(self, event_list):
        for cb, args in event_list:
            self._ready.append(events.Handle(cb, args, self, None))

    def _write_to_self(self):
        pass

    def _on_exception(self, loop, context):
        msg = context.get("message", "")
        exc = context.get("exception")
        # GC-time reports are not part of the run (nondeterministic timing)
        if "never retrieved" in msg or "was destroyed but it is pending" in msg:
            return
        if self.escaped is None:
            self.escaped = []
        self.escaped.append(("loop-callback", exc if exc is not None else RuntimeError(msg)))

    # --- connection establishment (asyncio component) ------------------------------------------------------
    connect_hook = None  # world callable(loop, protocol_factory, host, port) -> 'refuse' | 'hang' | transport factory

    async def create_connection(self, protocol_factory, host=None, port=None, *, ssl=None, server_hostname=None, **kw):
        """As BaseEventLoop.create_connection for the outcomes a simulator can decide: refused,
        never completing (the caller's wait_for() times out), or connected.  On success the real
        sequence is reproduced: connection_made() through call_soon, then the waiter, then the
        coroutine resumes and returns (transport, protocol)."""
        if self.connect_hook is None:
            raise HarnessError("create_connection without a connect hook")
        outcome = self.connect_hook(self, protocol_factory, host, port)
        if outcome == "refuse":
            # the failed connect(2) is reported by the selector one iteration later
            fut = self.create_future()
            self.call_soon(fut.set_exception, ConnectionRefusedError(111, "Connect call failed (%r, %r)" % (host, port)))
            await fut
        if outcome == "hang":
            await self.create_future()
        make_transport = outcome
        protocol = protocol_factory()
        waiter = self.create_future()
        transport = make_transport(protocol)
        self.call_soon(protocol.connection_made, transport)
        self.call_soon(_set_result_unless_cancelled, waiter, None)
        try:
            await waiter
        except BaseException:
            transport.close()
            raise
        return transport, protocol

    # --- driven by the world ----------------------------------------------------------------------------
    def add_io(self, cb, *args):
        self._sim_io.append((cb, args))

    def iterate(self):
        self.iterations += 1
        old = events._get_running_loop()
        events._set_running_loop(self)
        try:
            self._run_once()
        finally:
            events._set_running_loop(old)

    def call_in_loop(self, fn, *a):
        """Run fn as if from a loop callback (running loop set)."""
        old = events._get_running_loop()
        events._set_running_loop(self)
        try:
            return fn(*a)
        finally:
            events._set_running_loop(old)

    def next_time(self):
        while self._scheduled and self._scheduled[0]._cancelled:
            self._timer_cancelled_count -= 1
            h = heapq.heappop(self._scheduled)
            h._scheduled = False
        if not self._scheduled:
            return None
        return self._scheduled[0]._when

    def has_ready(self):
        for h in self._ready:
            if not h._cancelled:
                return True
        return False

    def advance(self, dt):
        self._vtime += dt


class SimAioTransport(asyncio.Transport):
    def __init__(self, run, loop, name, is_server, peer_port=9000):
        asyncio.Transport.__init__(self)
        self.run = run
        self.loop = loop
        self.name = name
        self.protocol = None
        self.link_out = None
        self.link_in = None
        self._closing = False
        self._conn_lost = 0
        self._eof = False
        self.gone = False
        self.reading = True
        self.written_total = 0
        self.flushed_total = 0
        self.observers = []
        self.escaped = []
        self.lost_exc = None
        if is_server:
            self._extra = {"peername": ("10.0.0.2", 40000), "sockname": ("10.0.0.1", peer_port)}
        else:
            self._extra = {"peername": ("10.0.0.1", peer_port), "sockname": ("10.0.0.2", 40000)}

    # --- asyncio.Transport ------------------------------------------------------------------------------
    def get_extra_info(self, name, default=None):
        return self._extra.get(name, default)

    def is_closing(self):
        return self._closing

    def set_protocol(self, protocol):
        self.protocol = protocol

    def get_protocol(self):
        return self.protocol

    def write(self, data):
        if not isinstance(data, (bytes, bytearray, memoryview)):
            raise TypeError("data argument must be a bytes-like object, not %r" % type(data).__name__)
        data = bytes(data)
        self.run.log("write", self.name, len(data), short(data), self._conn_lost == 0, False)
        if self._eof:
            raise RuntimeError("Cannot call write() after write_eof()")
        if not data:
            return
        for o in self.observers:
            o(data)
        if self._conn_lost:
            self._conn_lost += 1
            return
        self.written_total += len(data)
        self.flushed_total += len(data)
        self.link_out.push(data)

    def writelines(self, seq):
        self.write(b"".join(seq))

    def can_write_eof(self):
        return True

    def write_eof(self):
        if self._closing or self._eof:
            return
        self._eof = True
        self.link_out.close_write()

    def pause_reading(self):
        self.reading = False

    def resume_reading(self):
        if not self._closing:
            self.reading = True

    def is_reading(self):
        return self.reading and not self._closing

    def close(self):
        self.run.log("close", self.name, self._closing)
        if self._closing:
            return
        self._closing = True
        self.reading = False
        self._conn_lost += 1
        self.loop.call_soon(self._call_connection_lost, None, False)

    def abort(self):
        self.run.log("abort", self.name, self._conn_lost)
        self._force_close(None, True)

    def _force_close(self, exc, rst=False):
        if self._conn_lost:
            return
        if not self._closing:
            self._closing = True
            self.reading = False
        self._conn_lost += 1
        self.loop.call_soon(self._call_connection_lost, exc, rst)

    def _call_connection_lost(self, exc, rst):
        if self.gone:
            return
        self.gone = True
        self.lost_exc = exc
        # (close() and abort() both just close the socket: FIN once the kernel sent what it
        # has; with unread received data the kernel sends RST instead)
        rst = False
        if len(self.link_in.buf) > 0 and not self.link_out.fin:
            rst = self.run.ch.flag("rst-on-close-unread", 0.3)
            if rst:
                self.run.fault("rst-on-close-with-unread-data")
        if rst:
            self.link_out.reset()
        else:
            self.link_out.close_write()
        self.link_in.receiver_gone()
        self.run.log("connection_lost", self.name, type(exc).__name__ if exc is not None else None)
        self.protocol.connection_lost(exc)

    # --- driven by the link (always from inside a loop iteration) ------------------------------------------
    def needs_flush(self):
        return False

    def flush(self, k=None):
        pass

    def can_read(self):
        return self.reading and not self._closing and not self.gone

    def is_gone(self):
        return self.gone

    def _read_ready(self, data):
        if self._conn_lost:
            return
        try:
            self.protocol.data_received(data)
        except Exception as exc:  # noqa
            self.escaped.append(("data_received", exc))
            self.run.log("escaped", self.name, "data_received", type(exc).__name__)
            self._force_close(exc)

    def _read_eof(self):
        if self._conn_lost:
            return
        try:
            keep_open = self.protocol.eof_received()
        except Exception as exc:  # noqa
            self.escaped.append(("eof_received", exc))
            self._force_close(exc)
            return
        if keep_open:
            self.reading = False
        else:
            self.close()

    def _read_reset(self):
        if self._conn_lost:
            return
        self._force_close(ConnectionResetError(104, "Connection reset by peer"))


# --- framework-neutral driver interface ------------------------------------------------------------------

def new_reactor():
    loop = SimLoop()
    asyncio.set_event_loop(loop)
    txaio.config.loop = loop
    return loop


def factory_kw(loop):
    return {"loop": loop}


def flushed_total(t):
    return t.flushed_total


def make_connection(t):
    t.loop.call_in_loop(t.protocol.connection_made, t)


def call(world, fn, *a):
    return world.reactor.call_in_loop(fn, *a)


def loop_actions(world):
    loop = world.reactor
    if loop.has_ready():
        return [(9.0, "iterate", lambda: _iterate(world))]
    return []


def _iterate(world):
    world.reactor.iterate()


def loop_drain(world, limit=200):
    loop = world.reactor
    n = 0
    while loop.has_ready() and n < limit:
        loop.iterate()
        n += 1
    return n > 0


def next_timer(loop):
    return loop.next_time()


def fire_next(world):
    loop = world.reactor
    t = loop.next_time()
    if t is None:
        return
    world.run.log("tick", round(t, 6))
    if t > loop._vtime:
        loop._vtime = t
    loop.iterate()


def advance(world, dt):
    world.run.log("advance", round(dt, 6))
    world.reactor.advance(dt)


def deliver(world, t, chunk):
    world.reactor.add_io(t._read_ready, chunk)
    world.reactor.iterate()


def deliver_burst(world, t, chunks):
    """Several reads handed to the protocol within ONE loop iteration (uvloop, TLS and proactor transports do this;
    the Protocol contract allows data_received() any number of times between callbacks)."""
    for c in chunks:
        world.reactor.add_io(t._read_ready, c)
    world.reactor.iterate()


def deliver_multi(world, items):
    """One select() round reports several sockets readable: each is read once, all within ONE loop iteration - what the
    protocols scheduled for 'later' then runs after all of them have been read."""
    for t, c in items:
        world.reactor.add_io(t._read_ready, c)
    world.reactor.iterate()


def peer_fin(world, t):
    world.reactor.add_io(t._read_eof)
    world.reactor.iterate()


def peer_rst(world, t):
    world.reactor.add_io(t._read_reset)
    world.reactor.iterate()


def connect_pair(run, loop, client_factory, server_factory, names=("C", "S")):
    tc = SimAioTransport(run, loop, names[0], False)
    ts = SimAioTransport(run, loop, names[1], True)
    c2s = Pipe(run, names[0] + ">" + names[1])
    s2c = Pipe(run, names[1] + ">" + names[0])
    tc.link_out, tc.link_in = c2s, s2c
    ts.link_out, ts.link_in = s2c, c2s
    ps = server_factory()
    pc = client_factory()
    ts.protocol = ps
    tc.protocol = pc
    return tc, ts, pc, ps, c2s, s2c


def connect_raw(run, loop, factory, is_server, name="E"):
    t = SimAioTransport(run, loop, name, is_server)
    peer = RawPeer(run)
    e2p = Pipe(run, name + ">P")
    p2e = Pipe(run, "P>" + name)
    t.link_out, t.link_in = e2p, p2e
    peer.link_out, peer.link_in = p2e, e2p
    e2p.sink = peer
    proto = factory()
    t.protocol = proto
    return t, proto, peer, e2p, p2e


def future_state(f):
    if not isinstance(f, asyncio.Future):
        return ("value", f)
    if not f.done():
        return ("pending",)
    if f.cancelled():
        return ("err", asyncio.CancelledError())
    e = f.exception()
    if e is not None:
        return ("err", e)
    return ("ok", f.result())


def new_future(world):
    return world.reactor.create_future()


def resolve_future(f, value):
    if not f.done():
        f.set_result(value)


def reject_future(f, exc):
    if not f.done():
        f.set_exception(exc)


def cancel_future(f):
    f.cancel()


class Watch:
    def __init__(self, f):
        self.f = f

    def state(self):
        return future_state(self.f)


def watch(f, passthrough=False):
    # (asyncio: the value a done-callback returns goes nowhere - nothing to pass on)
    return Watch(f)
