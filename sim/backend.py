"""
Selects the framework backend for this worker process (exactly one per process, because
txaio.use_twisted() and txaio.use_asyncio() are mutually exclusive).
"""

import sys

_fw = None
_mod = None


def load(fw):
    global _fw, _mod
    if _fw is not None:
        if _fw != fw:
            raise RuntimeError("backend already loaded: %s" % _fw)
        return _mod
    if fw == "tx":
        from . import tx as mod
    elif fw == "aio":
        from . import aio as mod
    else:
        raise ValueError(fw)
    _fw = fw
    _mod = mod
    _silence_logging()
    _quiet_serializer_import()
    from .seams import SEAMS
    SEAMS.install()
    return mod


def name():
    return _fw


def mod():
    return _mod


def _silence_logging():
    import txaio
    # never start logging: txaio loggers are no-ops until start_logging() is called, but
    # warn/error go to stderr through a fallback on some versions -> make sure they do not.
    try:
        txaio.set_global_log_level("critical")
    except Exception:  # pragma: no cover
        pass
    import logging
    logging.disable(logging.CRITICAL)
    import warnings
    warnings.simplefilter("ignore")


def _quiet_serializer_import():
    """Importing the UBJSON serializer prints a harmless numpy/bjdata traceback to stderr.  It
    must happen *after* the txaio framework was selected (serializer.py binds txaio.time_ns at
    import time)."""
    import os
    fd = os.dup(2)
    dn = os.open(os.devnull, os.O_WRONLY)
    os.dup2(dn, 2)
    try:
        try:
            import autobahn.wamp.serializer  # noqa: F401
        except Exception:
            pass
    finally:
        os.dup2(fd, 2)
        os.close(dn)
        os.close(fd)
