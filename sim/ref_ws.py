"""
Independent RFC 6455 reference: frame encoder, incremental frame parser ("wire monitor")
and a receiver model that judges a whole octet stream.  Written from the RFC; imports
nothing from autobahn.
"""

import struct
import zlib

OP_CONT, OP_TEXT, OP_BIN, OP_CLOSE, OP_PING, OP_PONG = 0, 1, 2, 8, 9, 10

# close codes that may legally appear in a close frame on the wire (RFC 6455 7.4 + IANA
# registry up to 1014 as implemented by most stacks).  1012-1014 are registered by IANA but
# not by RFC 6455 itself; checks that depend on their status treat them as "either way".
WIRE_CLOSE_CODES_RFC = {1000, 1001, 1002, 1003, 1007, 1008, 1009, 1010, 1011}
WIRE_CLOSE_CODES_IANA_LATER = {1012, 1013, 1014}


def close_code_status(code):
    """'valid' / 'invalid' / 'either' for a status code received in a close frame."""
    if code in WIRE_CLOSE_CODES_RFC or 3000 <= code <= 4999:
        return "valid"
    if code in WIRE_CLOSE_CODES_IANA_LATER:
        return "either"
    return "invalid"


def xor_mask(data, key, offset=0):
    if not data:
        return b""
    n = len(data)
    k = bytes(key[(offset + i) % 4] for i in range(4))
    full = (k * (n // 4 + 1))[:n]
    return (int.from_bytes(data, "big") ^ int.from_bytes(full, "big")).to_bytes(n, "big")


def encode_frame(opcode, payload=b"", fin=True, rsv=0, mask=None, length_enc=None, declared_len=None):
    """Build one frame.  ``mask``: 4-byte key or None.  ``length_enc``: None (minimal) or
    16 / 64 to force a (possibly non-minimal) extended length form.  ``declared_len``
    overrides the length field (payload bytes are emitted as given)."""
    b0 = (0x80 if fin else 0) | ((rsv & 7) << 4) | (opcode & 0x0F)
    n = len(payload) if declared_len is None else declared_len
    if length_enc is None:
        if n <= 125:
            length_enc = 7
        elif n <= 0xFFFF:
            length_enc = 16
        else:
            length_enc = 64
    b1 = 0x80 if mask is not None else 0
    if length_enc == 7:
        hdr = bytes([b0, b1 | n])
    elif length_enc == 16:
        hdr = bytes([b0, b1 | 126]) + struct.pack("!H", n)
    else:
        hdr = bytes([b0, b1 | 127]) + struct.pack("!Q", n)
    if mask is not None:
        return hdr + mask + xor_mask(payload, mask)
    return hdr + payload


def is_utf8(b):
    """Well-formed UTF-8 per RFC 3629 (Python's strict decoder rejects overlongs,
    surrogates and > U+10FFFF)."""
    try:
        b.decode("utf-8", "strict")
        return True
    except UnicodeDecodeError:
        return False


def utf8_first_error(b):
    """Return (ok_complete, ok_prefix): whether b is complete valid UTF-8, and whether b is
    at least a prefix of some valid UTF-8 string (i.e. only the tail is an incomplete
    sequence)."""
    try:
        b.decode("utf-8", "strict")
        return True, True
    except UnicodeDecodeError as e:
        if e.reason == "unexpected end of data" and e.end == len(b):
            # incomplete but so far valid?  python reports 'unexpected end' also for e.g.
            # b'\xe0\x80' (which is already invalid); check by brute force completion.
            tail = b[e.start:]
            return False, _is_valid_prefix(tail)
        return False, False


def _is_valid_prefix(tail):
    """tail is 1..3 bytes starting a multi-byte sequence that is cut off: is there any
    completion that makes it valid?"""
    n = len(tail)
    if n == 0:
        return True
    b0 = tail[0]
    if 0xC2 <= b0 <= 0xDF:
        need = 2
    elif 0xE0 <= b0 <= 0xEF:
        need = 3
    elif 0xF0 <= b0 <= 0xF4:
        need = 4
    else:
        return False
    if n >= need:
        return False
    if n >= 2:
        b1 = tail[1]
        lo, hi = 0x80, 0xBF
        if b0 == 0xE0:
            lo = 0xA0
        elif b0 == 0xED:
            hi = 0x9F
        elif b0 == 0xF0:
            lo = 0x90
        elif b0 == 0xF4:
            hi = 0x8F
        if not (lo <= b1 <= hi):
            return False
    if n >= 3:
        if not (0x80 <= tail[2] <= 0xBF):
            return False
    return True


class Frame:
    __slots__ = ("fin", "rsv", "opcode", "masked", "mask", "length", "length_enc", "payload", "raw_payload", "start", "end")

    def __repr__(self):
        return "Frame(op=%d fin=%d rsv=%d masked=%d len=%d)" % (self.opcode, self.fin, self.rsv, self.masked, self.length)


class FrameParser:
    """Incremental parser: feed() octets, complete frames appear in .frames (payload
    unmasked).  ``pos`` counts consumed octets.  Makes no protocol judgement except what is
    needed to find frame boundaries."""

    def __init__(self):
        self.buf = bytearray()
        self.frames = []
        self.pos = 0  # stream offset of buf[0]
        self.hdr = None  # partially received frame
        self.bytes_in_payload = 0

    def feed(self, data):
        self.buf += data
        out = []
        while True:
            f = self._one()
            if f is None:
                break
            out.append(f)
        self.frames.extend(out)
        return out

    def pending_header(self):
        """If a complete header has been seen whose payload is still incomplete, return
        (frame-without-payload, payload_bytes_seen)."""
        return self._peek_header()

    def _header(self):
        buf = self.buf
        if len(buf) < 2:
            return None
        b0, b1 = buf[0], buf[1]
        masked = bool(b1 & 0x80)
        l1 = b1 & 0x7F
        i = 2
        if l1 == 126:
            if len(buf) < 4:
                return None
            n = struct.unpack("!H", bytes(buf[2:4]))[0]
            enc = 16
            i = 4
        elif l1 == 127:
            if len(buf) < 10:
                return None
            n = struct.unpack("!Q", bytes(buf[2:10]))[0]
            enc = 64
            i = 10
        else:
            n = l1
            enc = 7
        mask = None
        if masked:
            if len(buf) < i + 4:
                return None
            mask = bytes(buf[i:i + 4])
            i += 4
        f = Frame()
        f.fin = bool(b0 & 0x80)
        f.rsv = (b0 >> 4) & 7
        f.opcode = b0 & 0x0F
        f.masked = masked
        f.mask = mask
        f.length = n
        f.length_enc = enc
        f.start = self.pos
        return f, i

    def _peek_header(self):
        h = self._header()
        if h is None:
            return None
        f, i = h
        return f, max(0, len(self.buf) - i)

    def _one(self):
        h = self._header()
        if h is None:
            return None
        f, i = h
        if len(self.buf) < i + f.length:
            return None
        raw = bytes(self.buf[i:i + f.length])
        f.raw_payload = raw
        f.payload = xor_mask(raw, f.mask) if f.masked else raw
        del self.buf[:i + f.length]
        self.pos += i + f.length
        f.end = self.pos
        return f


class SenderMonitor:
    """Checks that the octets one endpoint writes after the handshake are a well-formed
    RFC 6455 frame sequence *as a sender* and reassembles the messages they carry.

    ``masking``: 'must' (every frame masked), 'mustnot', or 'any'.
    ``deflate``: None or a dict with the negotiated parameters for this direction
    {'no_context_takeover': bool, 'window_bits': int} used to inflate compressed messages;
    other codecs pass ``decompress`` callables via ``codec``."""

    def __init__(self, masking="any", compressed_ok=False, codec=None, apply_mask=True):
        self.parser = FrameParser()
        self.masking = masking
        self.compressed_ok = compressed_ok
        self.codec = codec  # object with start()/data(b)->bytes/end()->bytes
        self.apply_mask = apply_mask
        self.errors = []  # (clause_suffix, sig, detail)
        self.messages = []  # (payload, is_binary, compressed, nframes)
        self.controls = []  # (opcode, payload)
        self.events = []  # in wire order: ('msg', idx) / ('ctl', opcode, payload)
        self.close_sent = None  # (code, reason_bytes) of first close frame
        self.close_count = 0
        self.data_after_close = 0
        self.frames_after_close = 0
        self.in_msg = False
        self.cur = None
        self.masks = []
        self.nframes = 0

    def err(self, suffix, sig, detail=""):
        self.errors.append((suffix, sig, detail))

    def feed(self, data):
        for f in self.parser.feed(data):
            self._frame(f)

    def _frame(self, f):
        self.nframes += 1
        if self.close_count:
            self.frames_after_close += 1
            if f.opcode < 8:
                self.data_after_close += 1
        if self.masking == "must" and not f.masked:
            self.err("wire-wellformed", "unmasked-frame", repr(f))
        if self.masking == "mustnot" and f.masked:
            self.err("wire-wellformed", "masked-frame", repr(f))
        if f.masked:
            self.masks.append(f.mask)
        if f.length_enc == 16 and f.length < 126:
            self.err("wire-wellformed", "non-minimal-length-16", repr(f))
        if f.length_enc == 64 and f.length < 65536:
            self.err("wire-wellformed", "non-minimal-length-64", repr(f))
        if f.length_enc == 64 and f.length > 0x7FFFFFFFFFFFFFFF:
            self.err("wire-wellformed", "length-over-2^63", repr(f))
        payload = f.payload if self.apply_mask else f.raw_payload
        if f.opcode >= 8:
            if f.opcode not in (8, 9, 10):
                self.err("wire-wellformed", "reserved-control-opcode", repr(f))
            if not f.fin:
                self.err("wire-wellformed", "fragmented-control", repr(f))
            if f.length > 125:
                self.err("wire-wellformed", "control-over-125", repr(f))
            if f.rsv:
                self.err("wire-wellformed", "control-rsv", repr(f))
            self.controls.append((f.opcode, payload))
            self.events.append(("ctl", f.opcode, payload))
            if f.opcode == OP_CLOSE:
                self.close_count += 1
                if self.close_sent is None:
                    if len(payload) == 0:
                        self.close_sent = (None, None)
                    elif len(payload) == 1:
                        self.err("wire-wellformed", "close-len-1", repr(f))
                        self.close_sent = (None, None)
                    else:
                        self.close_sent = (struct.unpack("!H", payload[:2])[0], payload[2:])
            return
        # data frames
        if f.opcode not in (0, 1, 2):
            self.err("wire-wellformed", "reserved-data-opcode", repr(f))
            return
        if not self.in_msg:
            if f.opcode == 0:
                self.err("wire-wellformed", "continuation-outside-message", repr(f))
                return
            comp = False
            if f.rsv:
                if f.rsv == 4 and self.compressed_ok:
                    comp = True
                else:
                    self.err("wire-wellformed", "rsv-not-negotiated", repr(f))
            self.cur = {"bin": f.opcode == 2, "comp": comp, "parts": [payload], "n": 1}
            self.in_msg = True
        else:
            if f.opcode != 0:
                self.err("wire-wellformed", "new-message-inside-message", repr(f))
                return
            if f.rsv:
                self.err("wire-wellformed", "rsv-on-continuation", repr(f))
            self.cur["parts"].append(payload)
            self.cur["n"] += 1
        if f.fin:
            data = b"".join(self.cur["parts"])
            if self.cur["comp"]:
                try:
                    data = self.codec.decompress(data)
                except Exception as e:  # noqa
                    self.err("wire-wellformed", "undecodable-compressed-message", "%s: %s" % (type(e).__name__, e))
                    data = None
            self.messages.append((data, self.cur["bin"], self.cur["comp"], self.cur["n"]))
            self.events.append(("msg", len(self.messages) - 1))
            self.in_msg = False
            self.cur = None

    def incomplete(self):
        """True if octets of an unfinished frame or message are pending."""
        return bool(self.parser.buf) or self.in_msg


class DeflateCodec:
    """permessage-deflate inflater for one direction, straight on zlib."""

    def __init__(self, window_bits=15, no_context_takeover=False):
        self.wbits = window_bits or 15
        self.nct = no_context_takeover
        self.d = None

    def decompress(self, data):
        if self.d is None or self.nct:
            self.d = zlib.decompressobj(-self.wbits)
        return self.d.decompress(data + b"\x00\x00\xff\xff")


class Bzip2Codec:
    def decompress(self, data):
        import bz2
        return bz2.BZ2Decompressor().decompress(data)


# ---------------------------------------------------------------------------------------
# Receiver reference model (C02): judge a whole octet stream
# ---------------------------------------------------------------------------------------

class Verdict:
    """Result of judging a stream: deliveries of the well-formed prefix, the first
    violation (if any) and whether the peer started a closing handshake."""

    def __init__(self):
        self.deliveries = []  # ('msg', payload, is_binary) / ('ping', payload) / ('pong', payload)
        self.violation = None  # None or (kind, reason, stream_offset) kind in {'protocol','payload'}
        self.violation_either = False  # violation whose status is ambiguous (close codes 1012-1014)
        self.peer_close = None  # (code, reason_text) if a valid close frame ended the prefix
        self.incomplete = False  # stream ended inside a frame / message
        self.undelivered_text = False


def judge_stream(stream, role_is_server, require_masked=True, accept_masked=False, compression=False,
                 validate_utf8=True, inflater=None):
    """Reference receiver for an *open* connection.

    ``role_is_server``: the receiving endpoint is a server (so frames must be masked when
    ``require_masked``); for a client receiver frames must be unmasked unless
    ``accept_masked``.  Returns a Verdict.  The well-formed prefix ends at the first
    violation or at the peer's first close frame.
    """
    v = Verdict()
    p = FrameParser()
    # we walk frame headers ourselves to catch violations that are decidable from the
    # first two octets / the header before the payload is complete.
    buf = stream
    i = 0
    n = len(buf)
    in_msg = False
    msg_parts = None
    msg_bin = False
    msg_comp = False

    def viol(kind, reason, off):
        v.violation = (kind, reason, off)
        return v

    while i < n:
        if n - i < 2:
            v.incomplete = True
            return v
        b0, b1 = buf[i], buf[i + 1]
        fin = bool(b0 & 0x80)
        rsv = (b0 >> 4) & 7
        op = b0 & 0x0F
        masked = bool(b1 & 0x80)
        l1 = b1 & 0x7F
        if rsv != 0 and not (compression and rsv == 4):
            return viol("protocol", "rsv", i)
        if role_is_server and require_masked and not masked:
            return viol("protocol", "unmasked", i)
        if (not role_is_server) and (not accept_masked) and masked:
            return viol("protocol", "masked", i)
        if op > 7:
            if not fin:
                return viol("protocol", "fragmented-control", i)
            if l1 > 125:
                return viol("protocol", "control-too-long", i)
            if op not in (8, 9, 10):
                return viol("protocol", "reserved-opcode", i)
            if op == 8 and l1 == 1:
                return viol("protocol", "close-len-1", i)
            if rsv == 4:
                return viol("protocol", "compressed-control", i)
        else:
            if op not in (0, 1, 2):
                return viol("protocol", "reserved-opcode", i)
            if not in_msg and op == 0:
                return viol("protocol", "continuation-outside", i)
            if in_msg and op != 0:
                return viol("protocol", "data-inside-message", i)
            if in_msg and rsv == 4:
                return viol("protocol", "rsv-on-continuation", i)
        # the length rules are judged once the complete header (extended length and mask key)
        # is present - a header cut short is "incomplete", not yet a violation
        hdr_len = 2 + (2 if l1 == 126 else 8 if l1 == 127 else 0) + (4 if masked else 0)
        if n - i < hdr_len:
            v.incomplete = True
            return v
        j = i + 2
        if l1 == 126:
            ln = struct.unpack("!H", buf[j:j + 2])[0]
            j += 2
            if ln < 126:
                return viol("protocol", "non-minimal-16", i)
        elif l1 == 127:
            ln = struct.unpack("!Q", buf[j:j + 8])[0]
            j += 8
            if ln > 0x7FFFFFFFFFFFFFFF:
                return viol("protocol", "length-over-2^63", i)
            if ln < 65536:
                return viol("protocol", "non-minimal-64", i)
        else:
            ln = l1
        key = None
        if masked:
            key = buf[j:j + 4]
            j += 4
        avail = n - j
        if avail < ln:
            # incomplete payload: an invalid-UTF-8 verdict may already be due (fail fast)
            part = buf[j:n]
            if key is not None:
                part = xor_mask(part, key)
            if op <= 7 and validate_utf8:
                if in_msg:
                    is_text, is_comp = (not msg_bin), msg_comp
                else:
                    is_text, is_comp = (op == 1), (rsv == 4)
                if is_text and not is_comp:
                    sofar = (b"".join(msg_parts) if in_msg else b"") + part
                    ok, okp = utf8_first_error(sofar)
                    if not ok and not okp:
                        return viol("payload", "invalid-utf8", i)
            v.incomplete = True
            return v
        payload = buf[j:j + ln]
        if key is not None:
            payload = xor_mask(payload, key)
        frame_start = i
        i = j + ln
        if op > 7:
            if op == 9:
                v.deliveries.append(("ping", payload))
            elif op == 10:
                v.deliveries.append(("pong", payload))
            else:
                code = None
                reason = None
                if ln >= 2:
                    code = struct.unpack("!H", payload[:2])[0]
                    st = close_code_status(code)
                    if st == "invalid":
                        return viol("protocol", "close-code-%d" % code, frame_start)
                    if st == "either":
                        v.violation_either = True
                    if ln > 2:
                        if not is_utf8(payload[2:]):
                            return viol("payload", "close-reason-utf8", frame_start)
                        reason = payload[2:].decode("utf8")
                v.peer_close = (code, reason)
                return v
            continue
        # data frame
        if not in_msg:
            in_msg = True
            msg_parts = []
            msg_bin = (op == 2)
            msg_comp = (rsv == 4)
        msg_parts.append(payload)
        if not msg_bin and validate_utf8 and not msg_comp:
            sofar = b"".join(msg_parts)
            ok, okp = utf8_first_error(sofar)
            if not ok and not okp:
                return viol("payload", "invalid-utf8", frame_start)
            if fin and not ok:
                return viol("payload", "utf8-truncated", frame_start)
        if fin:
            data = b"".join(msg_parts)
            if msg_comp:
                try:
                    data = inflater.decompress(data)
                except Exception:
                    # undecodable compressed data: not covered by the statement; stop judging
                    v.incomplete = True
                    v.undelivered_text = True
                    return v
                if not msg_bin and validate_utf8 and not is_utf8(data):
                    return viol("payload", "invalid-utf8", frame_start)
            v.deliveries.append(("msg", data, msg_bin))
            in_msg = False
            msg_parts = None
            msg_comp = False
    if in_msg:
        v.incomplete = True
    return v
