"""
Framework-neutral pieces of the simulated link: one-directional octet pipes and the scripted
raw peer.  Imports no networking framework.
"""

from .core import short


class Pipe:
    """One direction of a TCP stream: FIFO of octets in flight plus its end marker."""

    def __init__(self, run, name):
        self.run = run
        self.name = name
        self.buf = bytearray()
        self.fin = False  # sender closed gracefully (after buf)
        self.rst = False  # sender reset
        self.gone = False  # receiver no longer reads (closed/aborted)
        self.stalled = False
        self.total = 0
        self.delivered = 0
        self.ended = False  # end marker consumed by receiver
        self.sink = None  # RawPeer consuming this pipe instantly

    def push(self, data):
        if self.fin or self.rst:
            return
        self.total += len(data)
        if self.gone:
            return
        if self.sink is not None:
            self.sink.on_data(data)
            return
        self.buf += data

    def close_write(self):
        if not self.rst and not self.fin:
            self.fin = True
            if self.sink is not None:
                self.sink.on_fin()

    def reset(self):
        if not self.rst:
            self.rst = True
            if self.sink is not None:
                self.sink.on_rst()

    def receiver_gone(self):
        self.gone = True
        self.buf = bytearray()

    def take(self, k):
        chunk = bytes(self.buf[:k])
        del self.buf[:k]
        self.delivered += len(chunk)
        return chunk


class RawPeer:
    """Scripted byte-level peer standing in for the remote TCP endpoint."""

    def __init__(self, run, name="P"):
        self.run = run
        self.name = name
        self.link_out = None
        self.link_in = None
        self.received = bytearray()
        self.closed = False
        self.saw_fin = False
        self.saw_rst = False

    def on_data(self, data):
        self.received += data

    def on_fin(self):
        self.saw_fin = True
        self.run.log("peer-saw-fin")

    def on_rst(self):
        self.saw_rst = True
        self.run.log("peer-saw-rst")

    def send(self, data):
        self.run.log("peer-send", len(data), short(data))
        self.link_out.push(data)

    def fin(self):
        self.link_out.close_write()

    def rst(self):
        self.link_out.reset()
        self.link_in.receiver_gone()
        self.closed = True


