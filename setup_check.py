#!/usr/bin/env python3
"""MANIFEST.setup_cmd: verify the offline environment the checks need (nothing is fetched)."""
import subprocess
import sys

PY = "/venv/bin/python"
code = "import txaio, twisted, autobahn, cbor2, msgpack; print('autobahn', autobahn.__version__, 'from', autobahn.__file__)"
p = subprocess.run([PY, "-c", code], capture_output=True, text=True)
sys.stdout.write(p.stdout)
if p.returncode != 0:
    sys.stderr.write(p.stderr)
    sys.exit(1)
print("setup ok")
