#!/usr/bin/env python3
"""
Driver for the /verif checks.  Imports no networking framework itself; forks worker
interpreters (one framework + one NVX setting each), aggregates their results, writes
evidence, replay files and the verdict line.

  run.py check C05 [--tier quick|thorough] [--seed N] [--workers N] [--runs N] [--budget S]
  run.py replay <file> [--trace]
  run.py selftest determinism [--props C05,...] [--n 40]
"""

import argparse
import hashlib
import json
import os
import subprocess
import sys
import time

HERE = os.path.dirname(os.path.abspath(__file__))
# where evidence/ and replays/ go; only trials against scratch trees (scripts/try_seed.sh) redirect it
OUT = os.environ.get("VERIF_OUT") or HERE
PY = os.environ.get("VERIF_PYTHON", "/venv/bin/python")
KNOWN = os.path.join(HERE, "known_findings.json")
sys.path.insert(0, HERE)

from checks.meta import META  # noqa: E402


def repo_dir():
    return os.environ.get("VERIF_REPO", "/repo")


def repo_rev():
    try:
        rev = subprocess.run(["git", "-C", repo_dir(), "rev-parse", "HEAD"], capture_output=True, text=True, timeout=20).stdout.strip()
        dirty = subprocess.run(["git", "-C", repo_dir(), "status", "--porcelain", "--untracked-files=no"], capture_output=True,
                               text=True, timeout=20).stdout.strip()
        return rev + ("+dirty" if dirty else "")
    except Exception:
        return "unknown"


def worker_env(nvx, hashseed="0"):
    env = dict(os.environ)
    env["PYTHONHASHSEED"] = hashseed
    env["AUTOBAHN_USE_NVX"] = nvx
    env["PYTHONDONTWRITEBYTECODE"] = "1"
    pp = [HERE]
    if os.environ.get("VERIF_REPO"):
        pp.insert(0, os.path.join(os.environ["VERIF_REPO"], "src"))
    build = os.path.join(HERE, ".build", "nvx")
    if os.path.isdir(build):
        pp.insert(0, build)
    env["PYTHONPATH"] = os.pathsep.join(pp)
    env.pop("USE_TWISTED", None)
    env.pop("USE_ASYNCIO", None)
    return env


def spawn_worker(args, nvx, hashseed="0", errpath=None):
    cmd = [PY, "-u", "-m", "sim.worker", json.dumps(args)]
    err = open(errpath, "w") if errpath else subprocess.DEVNULL
    return subprocess.Popen(cmd, cwd=HERE, env=worker_env(nvx, hashseed), stdout=subprocess.DEVNULL, stderr=err)


def fresh_replay(path, trace=False, hashseed="0"):
    with open(path) as f:
        rep = json.load(f)
    cmd = [PY, "-u", "-m", "sim.worker", json.dumps({"path": path, "trace": trace}), "replay"]
    p = subprocess.run(cmd, cwd=HERE, env=worker_env(rep.get("nvx", "1"), hashseed), capture_output=True, text=True, timeout=600)
    for line in p.stdout.splitlines():
        if line.startswith("REPLAY-RESULT "):
            return rep, json.loads(line[len("REPLAY-RESULT "):])
    raise RuntimeError("replay produced no result:\n%s\n%s" % (p.stdout[-2000:], p.stderr[-4000:]))


def cmd_check(a):
    prop = a.property.upper()
    meta = META[prop]
    tier = a.tier or os.environ.get("VERIF_TIER", "quick")
    if tier not in ("quick", "thorough"):
        tier = "quick"
    seed = a.seed if a.seed is not None else int(os.environ.get("VERIF_SEED", "1"))
    max_runs, budget = meta["budgets"][tier]
    if a.runs:
        max_runs = a.runs
    if a.budget or os.environ.get("VERIF_BUDGET"):
        budget = a.budget or float(os.environ["VERIF_BUDGET"])  # (trial runs against seeded changes: a shorter search)
    nworkers = a.workers or int(os.environ.get("VERIF_WORKERS", "0")) or min(16, os.cpu_count() or 4)
    variants = meta["variants"]
    if a.fw:
        variants = [v for v in variants if v[0] == a.fw]
    # native (NVX) validator/masker: rebuild from the working tree if its C / builder sources changed
    nb = subprocess.run([sys.executable, os.path.join(HERE, "nvx_build.py")], capture_output=True, text=True, timeout=600)
    if nb.returncode != 0:
        print("HARNESS-ERROR: NVX rebuild failed:\n%s" % nb.stderr[-2000:])
        return 2
    tmp = os.path.join(HERE, ".tmp", "%s-%d-%d" % (prop, os.getpid(), int(time.time())))
    os.makedirs(tmp, exist_ok=True)
    os.makedirs(os.path.join(OUT, "evidence"), exist_ok=True)
    t0 = time.time()
    procs = []
    # workers of the same variant share one index space (windex within the variant group)
    groups = {}
    for w in range(nworkers):
        v = variants[w % len(variants)]
        groups.setdefault(v, []).append(w)
    for v, ws in groups.items():
        for gi, w in enumerate(ws):
            out = os.path.join(tmp, "w%d.json" % w)
            args = {"prop": prop, "fw": v[0], "variant": "%s-nvx%s" % v, "seed": seed, "windex": gi, "nworkers": len(ws),
                    "max_runs": max(1, max_runs // nworkers), "budget_s": budget, "tier": tier, "out": out, "known": KNOWN,
                    "shrink_s": 25.0 if tier == "quick" else 60.0}
            procs.append((w, v, out, spawn_worker(args, v[1], errpath=os.path.join(tmp, "w%d.err" % w))))
    results = []
    dead = []
    hard_deadline = t0 + budget + 400
    for w, v, out, p in procs:
        try:
            rc = p.wait(timeout=max(1, hard_deadline - time.time()))
        except subprocess.TimeoutExpired:
            p.kill()
            rc = -9
        if rc != 0 or not os.path.exists(out):
            errtxt = ""
            try:
                errtxt = open(os.path.join(tmp, "w%d.err" % w)).read()[-3000:]
            except Exception:
                pass
            dead.append((w, v, rc, errtxt))
            continue
        with open(out) as f:
            results.append(json.load(f))
    wall = time.time() - t0

    # aggregate ------------------------------------------------------------------------------
    runs = sum(r["runs"] for r in results)
    steps = sum(r["steps"] for r in results)
    sim_time = sum(r["sim_time"] for r in results)
    hashes = set()
    for r in results:
        hashes.update(r["hashes"])
    probes, faults, known_hit, per_variant = {}, {}, {}, {}
    for r in results:
        for k, n in r["probes"].items():
            probes[k] = probes.get(k, 0) + n
        for k, n in r["faults"].items():
            faults[k] = faults.get(k, 0) + n
        for k, e in r["known"].items():
            ent = known_hit.setdefault(k, dict(e, count=0))
            ent["count"] += e["count"]
        pv = per_variant.setdefault(r["variant"], {"runs": 0, "wall_s": 0.0})
        pv["runs"] += r["runs"]
        pv["wall_s"] = max(pv["wall_s"], r["wall_s"])
    samples = []
    for r in results:
        for s in r["samples"]:
            if len(samples) < 4:
                samples.append({"variant": r["variant"], "run_seed": s["seed"], "mode": s["mode"], "case": s["case"],
                                "trace_head": s["trace_head"][:40], "replay_digest_equal": s["same_digest_on_replay"]})
    harness_errors = [dict(e, variant=r["variant"]) for r in results for e in r["harness_errors"]]
    nonrepro = [dict(e, variant=r["variant"]) for r in results for e in r.get("nonrepro", [])]
    violations = [dict(v, variant=r["variant"], fw=r["fw"]) for r in results for v in r["violations"]]

    # replay files + fresh-interpreter confirmation -----------------------------------------------------
    rev = repo_rev()
    reported = []
    unconfirmed = []
    os.makedirs(os.path.join(OUT, "replays"), exist_ok=True)
    for v in violations:
        tag = hashlib.blake2b(("%s|%s|%s" % (v["clause"], v["sig"], v["min_digest"])).encode(), digest_size=4).hexdigest()
        path = os.path.join(OUT, "replays", "%s-%s-%s.json" % (prop, v["clause"].split(".", 1)[1], tag))
        nvx = v["variant"].rsplit("nvx", 1)[1]
        rep = {"property": prop, "clause": v["clause"], "sig": v["sig"], "detail": v["detail"], "framework": v["fw"],
               "nvx": nvx, "mode": v["mode"], "repo_rev": rev, "seed": seed, "run_seed": v["seed"], "run_index": v["index"],
               "choices": v["min_choices"], "digest": v["min_digest"], "original_choices_len": len(v["choices"]),
               "minimiser_executions": v["min_execs"], "minimised": v.get("minimised", True),
               "schedule": v["min_labels"], "trace": v["min_trace"]}
        if v.get("prelude"):
            # runs of the same process that went before the judged one and are needed for it to fail (state that outlives
            # a connection / session); replayed first, not judged
            rep["prelude"] = v["prelude"]
        with open(path, "w") as f:
            json.dump(rep, f, indent=1)
        try:
            _, rr = fresh_replay(path)
            same = any((c, s) == (v["clause"], v["sig"]) for c, s, _ in rr["violations"]) and rr["digest"] == v["min_digest"]
        except Exception as e:  # noqa
            same = False
            rr = {"error": str(e)}
        if same:
            reported.append((v, path))
        else:
            unconfirmed.append((v, path, rr))

    # violations seen in a used worker process whose choice sequence does not show them in a fresh interpreter:
    # process-global state leaks from one run into the next (in the library or in the harness).  Without a
    # replayable violation next to them that is a harness error, never silence.
    nonrepro_only = bool(nonrepro) and not reported
    ok = not reported and not unconfirmed and not harness_errors and not dead and runs > 0 and not nonrepro_only
    ev = {
        "property_id": prop,
        "tier": tier,
        "seed": seed,
        "level": "exploration",
        "coverage": {
            "evaluations": runs,
            "distinct_nontrivial": len(hashes),
            "rule": meta["rule"],
            "samples": samples if samples else [{"note": "no sample recorded"}],
            "scheduler_steps": steps,
            "simulated_seconds": round(sim_time, 3),
            "runs_per_hour": int(runs / wall * 3600) if wall > 0 else 0,
            "workers": nworkers,
            "per_variant": per_variant,
            "faults_fired": faults,
            "probes_hit": probes,
            "known_findings_hit": known_hit,
            "components_real": meta["real"],
            "components_stub": meta["stub"],
            "repo_rev": rev,
            "exhaustive": False,
        },
        "assumptions": [
            "the simulated link/transport follows the Twisted tcp.Connection and asyncio selector-transport semantics listed in DESIGN.md 2.3",
            "sampling, not proof: a clean batch is evidence over the runs counted here",
        ],
        "wall_s": round(wall, 2),
        "violations": len(reported) + len(unconfirmed),
    }
    if dead:
        ev["coverage"]["dead_workers"] = [{"worker": w, "variant": "%s-nvx%s" % v, "rc": rc, "stderr_tail": e[-800:]} for w, v, rc, e in dead]
    if harness_errors:
        ev["coverage"]["harness_errors"] = [{"variant": e["variant"], "error": e["error"][-600:]} for e in harness_errors[:5]]
    with open(os.path.join(OUT, "evidence", "%s.json" % prop), "w") as f:
        json.dump(ev, f, indent=1, sort_keys=True)

    for k, e in sorted(known_hit.items()):
        print("KNOWN-FINDING: property=%s %s [%s] x%d - %s" % (prop, e["clause"], e["sig"], e["count"], e.get("what", "")))
    print("%s tier=%s seed=%d runs=%d distinct_nontrivial=%d steps=%d sim_s=%.0f wall=%.1fs (%d runs/h)" % (
        prop, tier, seed, runs, len(hashes), steps, sim_time, wall, ev["coverage"]["runs_per_hour"]))
    try:
        import shutil
        shutil.rmtree(tmp)
    except Exception:
        pass
    rc = 0
    for v, path in reported:
        print("  %s [%s] %s (variant %s, %d choices after minimisation)" % (v["clause"], v["sig"], v["detail"][:200], v["variant"], len(v["min_choices"])))
        print("VIOLATION property=%s replay=%s" % (prop, path))
        rc = 1
    for v, path, rr in unconfirmed:
        print("HARNESS-ERROR: violation %s [%s] did not reproduce identically in a fresh interpreter (%s): %s" % (
            v["clause"], v["sig"], path, json.dumps(rr)[:600]))
        rc = rc or 2
    if nonrepro:
        print("NOTE: %d violation(s) were seen only after other runs in the same worker process and do not replay from their "
              "own choice sequence (state leaking between connections/sessions of one process?): e.g. %s [%s] %s" % (
                  len(nonrepro), nonrepro[0]["clause"], nonrepro[0]["sig"], nonrepro[0]["detail"][:160]))
        if nonrepro_only:
            hp = os.path.join(OUT, "replays", "HARNESS-%s-nonrepro.json" % prop)
            e = nonrepro[0]
            with open(hp, "w") as f:
                json.dump({"property": prop, "clause": e["clause"], "sig": e["sig"], "framework": e["variant"].split("-")[0],
                           "nvx": e["variant"].rsplit("nvx", 1)[1], "mode": e.get("mode"), "choices": e["choices"], "digest": e["digest"],
                           "error": "violation not reproducible from this sequence alone"}, f)
            print("HARNESS-ERROR: non-replayable violation %s [%s] (sequence saved as %s)" % (e["clause"], e["sig"], hp))
            rc = rc or 2
    for n, e in enumerate(harness_errors[:5]):
        hp = os.path.join(OUT, "replays", "HARNESS-%s-%d.json" % (prop, n))
        with open(hp, "w") as f:
            json.dump({"property": prop, "clause": "harness", "sig": "harness", "framework": e["variant"].split("-")[0],
                       "nvx": e["variant"].rsplit("nvx", 1)[1], "mode": e.get("mode"), "choices": e.get("choices", []),
                       "digest": "", "error": e["error"]}, f)
        print("HARNESS-ERROR: %s (repro %s): %s" % (e["variant"], hp, e["error"][-1500:]))
        rc = rc or 2
    for w, v, wrc, errtxt in dead:
        print("HARNESS-ERROR: worker %d (%s-nvx%s) died rc=%s\n%s" % (w, v[0], v[1], wrc, errtxt[-1500:]))
        rc = rc or 2
    if runs == 0:
        print("HARNESS-ERROR: no runs executed")
        rc = rc or 2
    return rc


def cmd_replay(a):
    rep, rr = fresh_replay(a.path, trace=a.trace)
    want = (rep["clause"], rep["sig"])
    got = [tuple(v[:2]) for v in rr["violations"]]
    if a.trace and rr.get("trace"):
        for line in rr["trace"]:
            print(line)
    print("replay %s: digest %s (%s), violations: %s" % (a.path, rr["digest"], "same" if rr["digest"] == rep["digest"] else "DIFFERENT from recorded " + rep["digest"], got))
    if rr.get("harness_error"):
        print("HARNESS-ERROR: " + rr["harness_error"])
        return 2
    if want in got:
        print("VIOLATION property=%s replay=%s" % (rep["property"], a.path))
        return 1
    print("recorded violation %s does not occur on this tree" % (want,))
    return 0


def cmd_selftest(a):
    """Determinism: the same seeds under two hash seeds and two worker counts must give the
    same per-run digests."""
    props = [p.strip().upper() for p in (a.props.split(",") if a.props else META.keys())]
    bad = 0
    tmp = os.path.join(HERE, ".tmp", "selftest-%d" % os.getpid())
    os.makedirs(tmp, exist_ok=True)
    for prop in props:
        for v in META[prop]["variants"]:
            outs = []
            for hs in ("0", "12345"):
                out = os.path.join(tmp, "%s-%s-%s-%s.json" % (prop, v[0], v[1], hs))
                args = {"prop": prop, "fw": v[0], "variant": "%s-nvx%s" % v, "seed": a.seed, "n": a.n, "out": out}
                cmd = [PY, "-u", "-m", "sim.worker", json.dumps(args), "selftest"]
                p = subprocess.run(cmd, cwd=HERE, env=worker_env(v[1], hs), capture_output=True, text=True, timeout=1200)
                if p.returncode != 0:
                    print("selftest worker failed: %s %s\n%s" % (prop, v, p.stderr[-2000:]))
                    bad += 1
                    continue
                outs.append(json.load(open(out)))
            if len(outs) == 2:
                d0, d1 = outs[0]["digests"], outs[1]["digests"]
                same = d0 == d1
                twice = outs[0]["twice_same"] and outs[1]["twice_same"]
                print("determinism %s %s-nvx%s: %d seeds, hashseed 0 vs 12345: %s; same-process rerun: %s; replay-from-choices: %s" % (
                    prop, v[0], v[1], len(d0), "same" if same else "DIFFERENT", "same" if twice else "DIFFERENT",
                    "same" if outs[0]["replay_same"] and outs[1]["replay_same"] else "DIFFERENT"))
                if not (same and twice and outs[0]["replay_same"] and outs[1]["replay_same"]):
                    bad += 1
                    if not same:
                        for i, (x, y) in enumerate(zip(d0, d1)):
                            if x != y:
                                print("   first divergence at run index", i)
                                break
    return 1 if bad else 0


def cmd_reach(a):
    """Which executable lines of the files a property is anchored in does its check execute (both frameworks merged)?
    Writes reach/<id>.json and prints, per anchor file, the functions entered but not fully executed."""
    from sim.reach import executable_lines
    prop = a.property.upper()
    everything = prop == "ALL"
    props = sorted(META) if everything else [prop]
    anchors = {}
    with open(os.path.join(HERE, "properties.jsonl")) as f:
        for line in f:
            d = json.loads(line)
            anchors[d["id"]] = [x for x in d["anchors"]["files"] if x.endswith(".py")]
    tmp = os.path.join(HERE, ".tmp", "reach-%s-%d" % (prop, os.getpid()))
    os.makedirs(tmp, exist_ok=True)
    procs = []
    for pr in props:
        for fw in sorted(set(v[0] for v in META[pr]["variants"])):
            for part in range(a.parts):
                out = os.path.join(tmp, "%s-%s-%d.json" % (pr, fw, part))
                args = {"prop": pr, "fw": fw, "n": a.n // a.parts, "seed": 1000 + part, "files": anchors[pr], "out": out,
                        "all_files": everything}
                cmd = [PY, "-u", "-m", "sim.reach", json.dumps(args)]
                procs.append((fw, out, subprocess.Popen(cmd, cwd=HERE, env=worker_env("1"), stdout=subprocess.DEVNULL, stderr=subprocess.PIPE)))
    hit = {}
    for fw, out, p in procs:
        _, err = p.communicate(timeout=3600)
        if p.returncode != 0:
            print("HARNESS-ERROR: reach worker %s failed:\n%s" % (fw, err.decode()[-2000:]))
            return 2
        for rel, d in json.load(open(out)).items():
            hit.setdefault(rel, {}).setdefault(fw, set()).update(d["hit"])
    report = {"property": prop, "runs_per_framework": a.n, "repo_rev": repo_rev(), "files": {},
              "note": "ALL = union over the checks of all claimed properties, every autobahn source file any of them executed" if everything else
              "the files this property is anchored in"}
    src_root = os.path.join(repo_dir(), "src")
    for rel in sorted(hit):
        funcs = executable_lines(os.path.join(src_root, rel))
        allhit = set().union(*hit[rel].values())
        frep = {}
        tot = got = 0
        for q, lines in sorted(funcs.items()):
            if q == "<module>":
                continue
            h = lines & allhit
            if not h:
                continue  # never entered: a feature outside this check (listed in the JSON only as a count)
            tot += len(lines)
            got += len(h)
            if h != lines:
                frep[q] = {"executable": len(lines), "hit": len(h), "unreached": sorted(lines - h)}
        entered = sum(1 for q, l in funcs.items() if q != "<module>" and l & allhit)
        report["files"][rel] = {"functions": len(funcs) - 1, "functions_entered": entered, "lines_in_entered_functions": tot,
                                "lines_hit": got, "partly_executed": frep,
                                "hit_only_under": {fw: len(s - set().union(*[o for f2, o in hit[rel].items() if f2 != fw])) for fw, s in hit[rel].items()}}
        print("%s %s: %d of %d functions entered; %d of %d lines in them executed" % (prop, rel, entered, len(funcs) - 1, got, tot))
        if a.verbose:
            for q, d in sorted(frep.items(), key=lambda kv: -len(kv[1]["unreached"]))[:a.verbose]:
                print("    %-60s %3d/%3d  unreached: %s" % (q, d["hit"], d["executable"], _ranges(d["unreached"])))
    os.makedirs(os.path.join(OUT, "reach"), exist_ok=True)
    with open(os.path.join(OUT, "reach", "%s.json" % prop), "w") as f:
        json.dump(report, f, indent=1, sort_keys=True)
    try:
        import shutil
        shutil.rmtree(tmp)
    except Exception:
        pass
    return 0


def _ranges(nums):
    out = []
    for n in nums:
        if out and n == out[-1][1] + 1:
            out[-1][1] = n
        else:
            out.append([n, n])
    return ",".join("%d" % a if a == b else "%d-%d" % (a, b) for a, b in out)


def main():
    ap = argparse.ArgumentParser()
    sub = ap.add_subparsers(dest="cmd", required=True)
    c = sub.add_parser("check")
    c.add_argument("property")
    c.add_argument("--tier")
    c.add_argument("--seed", type=int)
    c.add_argument("--workers", type=int)
    c.add_argument("--runs", type=int)
    c.add_argument("--budget", type=float)
    c.add_argument("--fw")
    r = sub.add_parser("replay")
    r.add_argument("path")
    r.add_argument("--trace", action="store_true")
    s = sub.add_parser("selftest")
    s.add_argument("what", choices=["determinism"])
    s.add_argument("--props")
    s.add_argument("--n", type=int, default=60)
    s.add_argument("--seed", type=int, default=7)
    rc_ = sub.add_parser("reach")
    rc_.add_argument("property")
    rc_.add_argument("--n", type=int, default=4000)
    rc_.add_argument("--parts", type=int, default=4)
    rc_.add_argument("--verbose", type=int, default=0)
    a = ap.parse_args()
    if a.cmd == "reach":
        return cmd_reach(a)
    if a.cmd == "check":
        return cmd_check(a)
    if a.cmd == "replay":
        return cmd_replay(a)
    if a.cmd == "selftest":
        return cmd_selftest(a)


if __name__ == "__main__":
    sys.exit(main())
