#!/usr/bin/env python3
"""Regenerates MANIFEST.json from checks/meta.py (claimed checks) and the N/A table below."""
import json
import os
import sys

HERE = os.path.dirname(os.path.abspath(__file__))
sys.path.insert(0, HERE)
from checks.meta import META  # noqa

NA = {
    "C03": "pure function of its input (marshal/serialize/unserialize/parse round trip): no schedule, clock, fault or interleaving for a simulator to decide; exercised incidentally in the transport worlds but not claimed",
    "C08": "pure totality/strictness of parse()/unserialize() over inputs: input generation, not simulation",
    "C09": "UTF-8 validator is a DFA over its input; chunking is an input split, no other actor runs between chunks",
    "C15": "XOR masking is arithmetic on (payload, key, offset); as C09",
    "C19": "authentication signatures are pure functions of secrets and challenges; nothing to interleave",
}
NOT_BUILT = "claimed in DESIGN.md but its simulation check is not built yet in this tree"
ALL = ["C%02d" % i for i in range(1, 21)]

checks = []
for pid in sorted(META):
    m = META[pid]
    checks.append({
        "property_id": pid,
        "quick_cmd": "timeout 900 python3 run.py check %s --tier quick" % pid,
        "thorough_cmd": "timeout 7200 python3 run.py check %s --tier thorough" % pid,
        "evidence_file": "/verif/evidence/%s.json" % pid,
        "replay_cmd_template": "python3 run.py replay {path} --trace",
        "engine": "sim",
        "level_claimed": {
            "category": "exploration",
            "text": m.get("level_text", "seeded search over schedules and fault sequences in a deterministic simulator; oracles checked during and after each run; a clean batch is evidence over the counted runs, not proof"),
            "design_ref": m["design_ref"],
        },
        "level_note": m.get("level_note", "trusted: the simulated transports/loop follow the framework semantics listed in DESIGN.md 2.3; the reference models in sim/ref_*.py; stubs listed in evidence (components_stub)"),
        "technique": "deterministic simulation with fault injection (seeded schedule/fault search, choice-sequence replay and minimisation)",
    })
na = []
for pid in ALL:
    if pid in META:
        continue
    na.append({"property_id": pid, "reason": NA.get(pid, NOT_BUILT)})

man = {
    "version": 1,
    "setup_cmd": "python3 setup_check.py",
    "hooks": {
        "guard": "AUTOBAHN_VERIF_SIM",
        "enable": "no source hooks are needed: every seam is reachable from outside (txaio.config.loop, loop=/reactor= factory arguments, endpoint objects, per-module random/os/time attributes); the guard name is reserved and unused",
        "baseline_off_cmd": "cd /repo && /venv/bin/python -m pytest -ra -q -p no:cacheprovider --timeout=900 --continue-on-collection-errors",
        "source_commits": [],
        "add_only": True,
    },
    "engines": [{"name": "sim", "path": "/verif/sim", "serves_properties": sorted(META),
                 "kind_free_text": "deterministic discrete-event simulator for Twisted and asyncio (virtual clock, simulated TCP link, seeded choice sequence, minimiser)"}],
    "checks": checks,
    "not_applicable": na,
    "notes": "python3 run.py check <id> [--tier quick|thorough] [--seed N]; VERIF_SEED / VERIF_TIER honoured. known_findings.json lists genuine defects recorded rather than repaired and the fix: commits.",
}
with open(os.path.join(HERE, "MANIFEST.json"), "w") as f:
    json.dump(man, f, indent=1)
print("MANIFEST.json: %d checks, %d not claimed" % (len(checks), len(na)))
