#!/bin/sh
# try_seed.sh <seed-dir containing patch.diff + demo.py> <property> [suite]
# Applies the patch to a fresh scratch worktree of /repo (outside /repo and /verif), confirms the
# demonstration (passes on /repo, fails on the patched tree), optionally runs the pinned suite on the
# patched tree, runs the property's quick check against the patched tree, removes the worktree.
dir=$1; prop=$2; suite=$3
wt=/tmp/vw-$$
git -C /repo worktree add -q $wt HEAD || exit 3
trap "git -C /repo worktree remove --force $wt" EXIT
if ! git -C $wt apply $dir/patch.diff 2>/dev/null; then
  # the repository moved on since the change was written (later fix: commits): merge it
  if ! git -C $wt apply --3way $dir/patch.diff; then echo "PATCH-DOES-NOT-APPLY"; exit 3; fi
  echo "(patch applied with a 3-way merge onto the current HEAD)"
fi
echo "== demo on unchanged tree:"; (cd $dir && PYTHONPATH=/repo/src timeout 300 /venv/bin/python demo.py > /tmp/seed-demo-$$.out 2>&1; echo "demo_rc_unchanged=$?"; tail -2 /tmp/seed-demo-$$.out)
echo "== demo on patched tree:"; (cd $dir && PYTHONPATH=$wt/src timeout 300 /venv/bin/python demo.py > /tmp/seed-demo-$$.out 2>&1; echo "demo_rc_patched=$?"; tail -3 /tmp/seed-demo-$$.out); rm -f /tmp/seed-demo-$$.out
if [ -n "$suite" ]; then
  echo "== pinned suite on patched tree:"
  (cd $wt && PYTHONPATH=$wt/src timeout 2400 /venv/bin/python -m pytest -ra -q -p no:cacheprovider --timeout=900 --continue-on-collection-errors --junitxml=/tmp/seed-$$.xml > /tmp/seed-$$.log 2>&1
   python3 - <<PY
import json, xml.etree.ElementTree as ET
b=json.load(open('/root/.vp/BASELINE.json')); want=set(b['stable_pass'])
got=set()
for tc in ET.parse('/tmp/seed-$$.xml').iter('testcase'):
    if not list(tc): got.add(tc.get('classname')+'::'+tc.get('name'))
print("SUITE stable_pass=%d passed_now=%d missing=%d %s" % (len(want), len(got), len(want-got), sorted(want-got)[:5]))
PY
  )
fi
echo "== check $prop against patched tree:"
cd ${VERIF_HOME:-/verif} && VERIF_OUT=/tmp/seed-out-$prop VERIF_REPO=$wt timeout 1200 python3 run.py check $prop 2>&1 | grep -v "^KNOWN-FINDING" | cut -c1-260 | tail -6
