#!/bin/sh
# Sensitivity self-test: every change kept under seeded/ is applied to a scratch worktree and the
# property's quick check must report a VIOLATION against it.  Prints one CAUGHT/MISSED line per change.
cd /verif
rc=0
for d in seeded/*/; do
  id=$(basename $d); prop=$(jq -r .property $d/meta.json)
  if [ "$(jq -r '.obsolete // false' $d/meta.json)" = "true" ]; then echo "SKIPPED $id ($prop): not counted (see check_result in meta.json)"; continue; fi
  out=$(./scripts/try_seed.sh /verif/seeded/$id $prop 2>&1)
  if echo "$out" | grep -q "^PATCH-DOES-NOT-APPLY"; then
    echo "NOAPPLY $id ($prop): the repository moved on, re-base seeded/$id/patch.diff"; rc=1
  elif echo "$out" | grep -q "^VIOLATION property=$prop"; then
    echo "CAUGHT $id ($prop): $(echo "$out" | grep -A0 -m1 '^  C' | cut -c1-140)"
  else
    echo "MISSED $id ($prop)"; rc=1
  fi
done
rm -rf /tmp/seed-out-*
exit $rc
