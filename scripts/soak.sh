#!/bin/sh
# Soak: quick-tier batches of every claimed check with fresh seeds; prints one line per batch and
# every VIOLATION / HARNESS-ERROR line.  Usage: soak.sh <first-seed> <count> [workers]
# Uses VERIF_REPO if set (e.g. the repo snapshot of `vp run --with-repo`).
first=${1:-1000}; count=${2:-10}; workers=${3:-8}
i=0
while [ $i -lt $count ]; do
  seed=$((first + i))
  for p in C01 C02 C04 C05 C06 C07 C10 C11 C12 C13 C14 C16 C17 C18 C20; do
    timeout 1200 python3 run.py check $p --seed $seed --workers $workers 2>&1 | grep -v "^KNOWN-FINDING" | grep "tier=\|VIOLATION\|HARNESS\|^  C" | cut -c1-300
  done
  i=$((i + 1))
done
