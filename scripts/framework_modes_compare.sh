#!/bin/sh
# framework_modes_compare.sh [base-commit]: run the repository's test directories under USE_TWISTED=1 and
# USE_ASYNCIO=1 (tests the pinned suite cannot run) on /repo and on a scratch worktree of <base-commit>
# (default: the commit the repository was pinned at) and compare the outcome of every test.
base=${1:-1ad03d74}
wt=/tmp/fmc-$$
git -C /repo worktree add -q $wt $base || exit 3
trap "git -C /repo worktree remove --force $wt; rm -f /tmp/fmc-$$-*" EXIT
dirs=$(cd /repo && ls -d src/autobahn/*/test src/autobahn/test | tr '\n' ' ')
rc=0
for mode in USE_TWISTED USE_ASYNCIO; do
  (cd $wt && env $mode=1 PYTHONPATH=$wt/src timeout 1800 /venv/bin/python -m pytest -q -p no:cacheprovider --continue-on-collection-errors -rA $dirs 2>&1 | grep -E "^(PASSED|FAILED|ERROR) [a-z]" | sed 's/ - .*//' | sort > /tmp/fmc-$$-base)
  (cd /repo && env $mode=1 timeout 1800 /venv/bin/python -m pytest -q -p no:cacheprovider --continue-on-collection-errors -rA $dirs 2>&1 | grep -E "^(PASSED|FAILED|ERROR) [a-z]" | sed 's/ - .*//' | sort > /tmp/fmc-$$-new)
  echo "$mode=1: $base $(grep -c PASSED /tmp/fmc-$$-base) passed, working tree $(grep -c PASSED /tmp/fmc-$$-new) passed"
  if ! diff /tmp/fmc-$$-base /tmp/fmc-$$-new; then rc=1; fi
done
exit $rc
