#!/bin/sh
# Runs the repository's pinned suite (guard off: there are no hooks) and compares with BASELINE.json
cd /repo && timeout 2400 /venv/bin/python -m pytest -ra -q -p no:cacheprovider --timeout=900 --continue-on-collection-errors --junitxml=/tmp/base.xml > /tmp/base.log 2>&1
python3 - <<'PY'
import json, xml.etree.ElementTree as ET
b=json.load(open('/root/.vp/BASELINE.json'))
want=set(b['stable_pass'])
t=ET.parse('/tmp/base.xml')
got=set()
for tc in t.iter('testcase'):
    if not list(tc): got.add(tc.get('classname')+'::'+tc.get('name'))
print("BASELINE stable_pass=%d passed_now=%d missing=%d %s" % (len(want), len(got), len(want-got), sorted(want-got)[:8]))
PY
