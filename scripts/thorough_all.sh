#!/bin/sh
# thorough_all.sh [seed] [workers]: the thorough tier of every claimed check, one after the other
seed=${1:-1}; workers=${2:-16}
cd "$(dirname "$0")/.."
rc=0
for p in C01 C02 C04 C05 C06 C07 C10 C11 C12 C13 C14 C16 C17 C18 C20; do
  timeout 7200 python3 run.py check $p --tier thorough --seed $seed --workers $workers 2>&1 | cut -c1-400 || rc=1
done
exit $rc
