#!/usr/bin/env python3
"""Regenerates the table of seeded changes in DESIGN.md (section 7.0) from seeded/*/meta.json."""
import glob, json, os, re
here = os.path.dirname(os.path.dirname(os.path.abspath(__file__)))
rows = []
def key(d):
    m = re.match(r"(C\d+)([a-z]?)$", os.path.basename(d))
    return (m.group(1), m.group(2))
for d in sorted(glob.glob(os.path.join(here, "seeded", "C*")), key=key):
    m = json.load(open(os.path.join(d, "meta.json")))
    cell = lambda t: str(t).replace("|", "\\|").replace("\n", " ")
    rows.append("| `%s` (round %s) | %s | %s | %s | %s |" % (os.path.basename(d), m["round"], m["property"], cell(m["change"]),
                                                            cell(m["needs_to_manifest"]), cell(m["check_result"])))
p = os.path.join(here, "DESIGN.md")
s = open(p).read()
head = "| change | property | what it does | needs | check result |\n|---|---|---|---|---|\n"
i = s.index(head) + len(head)
j = s.index("\nTally. Round 1", i)
s = s[:i] + "\n".join(rows) + "\n" + s[j:]
open(p, "w").write(s)
print("%d rows" % len(rows))
