#!/bin/sh
# try_round.sh <staging dir with one sub-directory per property: patch.diff + demo.py> [verif home]
# The same confirmation as try_seed.sh for a whole round of seeded changes, with the slow part in parallel:
#  1. per change, in parallel: fresh scratch worktree of /repo HEAD, patch applied, demo on the unchanged and on the
#     patched tree, pinned suite on the patched tree;
#  2. one after the other (each check uses all cores): the property's quick check against the patched tree;
#  3. worktrees removed.  Per change a try.log is left in its staging sub-directory.
stage=$1; home=${2:-/verif}
props=$(ls -d $stage/C* | xargs -n1 basename)
for p in $props; do
  (
    wt=/tmp/vr-$p; dir=$stage/$p; log=$dir/try.log; : > $log
    git -C /repo worktree add -q -f $wt HEAD || exit 3
    if ! git -C $wt apply $dir/patch.diff 2>/dev/null; then
      git -C $wt apply --3way $dir/patch.diff >> $log 2>&1 || { echo "PATCH-DOES-NOT-APPLY" >> $log; exit 3; }
    fi
    (cd $dir && PYTHONPATH=/repo/src timeout 300 /venv/bin/python demo.py > /tmp/vr-demo-$p.out 2>&1; echo "demo_rc_unchanged=$?" >> $log)
    (cd $dir && PYTHONPATH=$wt/src timeout 300 /venv/bin/python demo.py > /tmp/vr-demo-$p.out 2>&1; echo "demo_rc_patched=$?" >> $log; tail -3 /tmp/vr-demo-$p.out >> $log); rm -f /tmp/vr-demo-$p.out
    (cd $wt && PYTHONPATH=$wt/src timeout 2400 /venv/bin/python -m pytest -ra -q -p no:cacheprovider --timeout=900 --continue-on-collection-errors --junitxml=/tmp/vr-$p.xml > /tmp/vr-$p.log 2>&1
     python3 - >> $log <<PY
import json, xml.etree.ElementTree as ET
b=json.load(open('/root/.vp/BASELINE.json')); want=set(b['stable_pass'])
got=set()
for tc in ET.parse('/tmp/vr-$p.xml').iter('testcase'):
    if not list(tc): got.add(tc.get('classname')+'::'+tc.get('name'))
print("SUITE stable_pass=%d passed_now=%d missing=%d %s" % (len(want), len(got), len(want-got), sorted(want-got)[:5]))
PY
    ); rm -f /tmp/vr-$p.xml /tmp/vr-$p.log
  ) &
done
wait
for p in $props; do
  wt=/tmp/vr-$p; log=$stage/$p/try.log
  if [ -d $wt ] && ! grep -q PATCH-DOES-NOT-APPLY $log; then
    echo "== check $p against patched tree:" >> $log
    (cd $home && VERIF_OUT=/tmp/seed-out-$p VERIF_REPO=$wt timeout 1200 python3 run.py check $p 2>&1 | grep -v "^KNOWN-FINDING" | cut -c1-260 | tail -6) >> $log
  fi
  git -C /repo worktree remove --force $wt 2>/dev/null
  echo "== $p: $(grep -h 'demo_rc\|SUITE\|^VIOLATION\|PATCH-DOES' $log | head -4 | tr '\n' ' ' | cut -c1-240)"
done
