#!/bin/sh
# seeded_some.sh "<properties>" [budget seconds]: the sweep of seeded_all.sh restricted to the kept changes of some properties,
# with a shorter search per change (a MISSED here is to be re-tried with the full budget: scripts/try_seed.sh seeded/<id> <prop>).
props="$1"; export VERIF_BUDGET=${2:-30}
cd /verif
for d in seeded/*/; do
  id=$(basename $d); prop=$(jq -r .property $d/meta.json)
  case " $props " in *" $prop "*) ;; *) continue;; esac
  if [ "$(jq -r '.obsolete // false' $d/meta.json)" = "true" ]; then echo "SKIPPED $id ($prop)"; continue; fi
  out=$(./scripts/try_seed.sh /verif/seeded/$id $prop 2>&1)
  if echo "$out" | grep -q "^PATCH-DOES-NOT-APPLY"; then echo "NOAPPLY $id ($prop)"
  elif echo "$out" | grep -q "^VIOLATION property=$prop"; then echo "CAUGHT $id ($prop): $(echo "$out" | grep -A0 -m1 '^  C' | cut -c1-140)"
  else echo "MISSED $id ($prop)"; fi
done
