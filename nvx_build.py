#!/usr/bin/env python3
"""
Rebuild the NVX CFFI modules (_nvx_utf8validator, _nvx_xormasker) from /repo's *current* C and
builder sources when they differ from the sources the pre-built modules in /venv were made from
(hash recorded in nvx_pristine.sha256).  The rebuilt modules go to /verif/.build/nvx, which the
driver puts first on the workers' PYTHONPATH; when the sources are pristine that directory is
removed so the pre-built modules are used.

usage: nvx_build.py [--record]   (--record stores the hash of the current sources as pristine)
"""
import hashlib
import os
import shutil
import subprocess
import sys

HERE = os.path.dirname(os.path.abspath(__file__))
REPO = os.environ.get("VERIF_REPO", "/repo")
NVX = os.path.join(REPO, "src", "autobahn", "nvx")
FILES = ["_utf8validator.c", "_utf8validator.py", "_xormasker.c", "_xormasker.py", "_compile_args.py"]
OUT = os.path.join(HERE, ".build", "nvx")
PRISTINE = os.path.join(HERE, "nvx_pristine.sha256")
PY = os.environ.get("VERIF_PYTHON", "/venv/bin/python")


def current_hash():
    h = hashlib.sha256()
    for f in FILES:
        with open(os.path.join(NVX, f), "rb") as fd:
            h.update(f.encode() + b"\0" + fd.read() + b"\0")
    return h.hexdigest()


def main():
    cur = current_hash()
    if "--record" in sys.argv:
        with open(PRISTINE, "w") as f:
            f.write(cur + "\n")
        print("recorded", cur)
        return 0
    pristine = open(PRISTINE).read().strip() if os.path.exists(PRISTINE) else None
    if cur == pristine:
        if os.path.isdir(OUT):
            shutil.rmtree(OUT)
        return 0
    stamp = os.path.join(OUT, "stamp")
    if os.path.exists(stamp) and open(stamp).read().strip() == cur:
        return 0
    if os.path.isdir(OUT):
        shutil.rmtree(OUT)
    os.makedirs(OUT)
    env = dict(os.environ, PYTHONPATH=os.path.join(REPO, "src"))
    for builder in ("_utf8validator.py", "_xormasker.py"):
        p = subprocess.run([PY, os.path.join(NVX, builder)], cwd=OUT, env=env, capture_output=True, text=True)
        if p.returncode != 0:
            sys.stderr.write("NVX rebuild failed for %s:\n%s\n%s\n" % (builder, p.stdout[-2000:], p.stderr[-4000:]))
            shutil.rmtree(OUT)
            return 1
    with open(stamp, "w") as f:
        f.write(cur + "\n")
    print("NVX modules rebuilt from the working tree into", OUT)
    return 0


if __name__ == "__main__":
    sys.exit(main())
