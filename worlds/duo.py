"""
Two real sessions (e.g. caller + callee, publisher + subscriber) on simulated transports, joined by
a scripted router that forwards between them - possibly late, reordered or tampered with.
"""

from sim import backend
from sim.core import SetupViolation, HarnessError
from sim.seams import SEAMS
from worlds.wamp import SessionWorld, StubTransport, session_classes, _mshort


class Side:
    def __init__(self, name):
        self.name = name
        self.session = None
        self.t = None
        self.inbox = []  # messages the router received from this side, in order
        self.cursor = 0


class DuoWorld(SessionWorld):
    def __init__(self, run):
        SessionWorld.__init__(self, run)
        self.sides = {}

    def add_side(self, name, session, ser_name):
        side = Side(name)
        side.session = session
        side.t = StubTransport(_Tap(self, side), ser_name)
        self.sides[name] = side
        return side

    def join_all(self):
        from autobahn.wamp import message, role
        sid = 3000
        for side in self.sides.values():
            self.call(side.session.onOpen, side.t)
        self.settle()
        roles = {"broker": role.RoleBrokerFeatures(), "dealer": role.RoleDealerFeatures(progressive_call_results=True, call_canceling=True)}
        for side in self.sides.values():
            sid += 1
            err = self.deliver_to(side, message.Welcome(sid, roles, realm="realm1", authid=side.name, authrole="user", authmethod="anonymous"))
            if err is not None:
                raise SetupViolation("session-did-not-join-on-WELCOME", "%s: %r" % (side.name, err))
        self.settle()
        for side in self.sides.values():
            if side.session._session_id is None:
                raise SetupViolation("session-did-not-join-on-WELCOME", side.name)
            side.cursor = len(side.inbox)

    def deliver_to(self, side, msg, roundtrip=True):
        if not side.t.attached:
            return None
        if roundtrip:
            data, is_binary = side.t._rser.serialize(msg)
            msgs = side.t._serializer.unserialize(data, is_binary)
            if len(msgs) != 1:
                raise HarnessError("router round trip gave %d messages" % len(msgs))
            msg = msgs[0]
        self.run.log("deliver", side.name, type(msg).__name__, _mshort(msg))
        try:
            self.call(side.session.onMessage, msg)
        except Exception as e:  # noqa
            self.run.log("onMessage-raised", side.name, type(e).__name__)
            return e
        return None

    def unread(self, side):
        out = side.inbox[side.cursor:]
        return out

    def abstract_state(self):
        return tuple((s.session._session_id is not None, len(s.inbox)) for s in self.sides.values())


class _Tap:
    """What StubTransport sees as its 'world': forwards sent messages into the side's inbox."""

    def __init__(self, world, side):
        self.world = world
        self.side = side
        self.run = world.run

    def on_sent(self, msg):
        self.side.inbox.append(msg)
        hook = getattr(self.world, "on_sent_side", None)
        if hook is not None:
            hook(self.side, msg)
