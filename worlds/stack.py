"""
Full-stack world: WAMP transports (WebSocket and RawSocket, Twisted and asyncio) as real code on
both ends of a simulated link; the sessions on top are either recording stubs (transport-level
properties) or a real ApplicationSession on the client end with a scripted router on the server
end.  Also: one real transport endpoint against a scripted raw peer.
"""

from sim import backend
from sim.core import HarnessError, short
from worlds.ws import WsWorld


class StubSession:
    """ITransportHandler that records what the transport tells it."""

    def __init__(self, world, name):
        self.world = world
        self.name = name
        self.events = []
        self._authid = None
        self._session_id = None
        self._transport = None
        self.hooks = {}
        self.opens = 0
        self.closes = 0
        self.msgs = []

    def onOpen(self, transport):
        self.opens += 1
        self._transport = transport
        self.events.append(("onOpen",))
        self.world.run.log("session", self.name, "onOpen")
        h = self.hooks.get("onOpen")
        if h:
            return h(transport)

    def onMessage(self, msg):
        self.events.append(("onMessage", msg))
        self.msgs.append(msg)
        self.world.run.log("session", self.name, "onMessage", type(msg).__name__)
        h = self.hooks.get("onMessage")
        if h:
            return h(msg)

    def onClose(self, wasClean):
        self.closes += 1
        self.events.append(("onClose", wasClean))
        self.world.run.log("session", self.name, "onClose", wasClean)
        self._transport = None
        h = self.hooks.get("onClose")
        if h:
            return h(wasClean)


class End:
    """One transport endpoint of the stack (the analogue of worlds.ws.Ep)."""

    def __init__(self, world, name, is_server):
        self.world = world
        self.name = name
        self.is_server = is_server
        self.t = None
        self.p = None
        self.written = bytearray()
        self.delivered = bytearray()

    def on_write(self, data):
        self.written += data

    def on_delivered(self, data):
        self.delivered += data


def transport_factories(kind):
    """(module, client factory class, server factory class) for the loaded framework."""
    fw = backend.name()
    if kind == "ws":
        if fw == "tx":
            from autobahn.twisted import websocket as m
        else:
            from autobahn.asyncio import websocket as m
        return m, m.WampWebSocketClientFactory, m.WampWebSocketServerFactory
    if fw == "tx":
        from autobahn.twisted import rawsocket as m
    else:
        from autobahn.asyncio import rawsocket as m
    return m, m.WampRawSocketClientFactory, m.WampRawSocketServerFactory


def make_ser(name, batched=False):
    from autobahn.wamp import serializer as S
    if name == "json-hex":
        # a serializer object configured with a non-default option: both ends must use it as configured
        return S.JsonSerializer(batched=batched, use_binary_hex_encoding=True)
    cls = {"json": S.JsonSerializer, "cbor": S.CBORSerializer, "msgpack": S.MsgPackSerializer, "ubjson": S.UBJSONSerializer}[name]
    return cls(batched=batched)


class StackWorld(WsWorld):
    """Link actions, timers and drain come from WsWorld; eps are End objects."""

    def build_stack(self, kind, client_session_factory, server_session_factory, client_sers, server_sers,
                    client_opts=None, server_opts=None, server_protocol_wrap=None):
        m, CF, SF = transport_factories(kind)
        kw = self.fw.factory_kw(self.reactor)
        if kind == "ws":
            cfac = CF(client_session_factory, "ws://localhost:9000/ws", serializers=client_sers, **kw)
            sfac = SF(server_session_factory, "ws://localhost:9000/ws", serializers=server_sers, **kw)
            cfac.setProtocolOptions(openHandshakeTimeout=0, **(client_opts or {}))
            sfac.setProtocolOptions(openHandshakeTimeout=0, **(server_opts or {}))
        else:
            cfac = CF(client_session_factory, serializer=client_sers[0] if client_sers else None)
            sfac = SF(server_session_factory, serializers=server_sers)
            if self.fwname == "tx":
                if client_opts:
                    cfac.setProtocolOptions(**client_opts)
                if server_opts:
                    sfac.setProtocolOptions(**server_opts)
        if server_protocol_wrap is not None:
            sfac.protocol = server_protocol_wrap(sfac.protocol)
        self.cfac, self.sfac = cfac, sfac
        tc, ts, pc, ps, c2s, s2c = self.fw.connect_pair(self.run, self.reactor, cfac, sfac)
        c = End(self, "C", False)
        s = End(self, "S", True)
        for e, t, p in ((c, tc, pc), (s, ts, ps)):
            e.t, e.p = t, p
            t.observers.append(e.on_write)
        self.client, self.server = c, s
        self.eps = [c, s]
        self.pipes = [(c2s, s), (s2c, c)]
        self.c2s, self.s2c = c2s, s2c
        self.kind = kind
        return c, s

    def build_stack_raw(self, kind, is_server, session_factory, sers, opts=None):
        m, CF, SF = transport_factories(kind)
        kw = self.fw.factory_kw(self.reactor)
        if kind == "ws":
            if is_server:
                fac = SF(session_factory, "ws://localhost:9000/ws", serializers=sers, **kw)
            else:
                fac = CF(session_factory, "ws://localhost:9000/ws", serializers=sers, **kw)
            fac.setProtocolOptions(openHandshakeTimeout=0, **(opts or {}))
        else:
            fac = SF(session_factory, serializers=sers) if is_server else CF(session_factory, serializer=sers[0])
            if self.fwname == "tx" and opts:
                fac.setProtocolOptions(**opts)
        self.fac = fac
        t, p, peer, e2p, p2e = self.fw.connect_raw(self.run, self.reactor, fac, is_server)
        e = End(self, "E", is_server)
        e.t, e.p = t, p
        t.observers.append(e.on_write)
        self.e = e
        self.peer = peer
        self.eps = [e]
        self.e2p, self.p2e = e2p, p2e
        self.pipes = [(p2e, e)]
        self.kind = kind
        return e, peer

    def abstract_state(self):
        out = []
        for e in self.eps:
            p = e.p
            out.append((getattr(p, "_st", None), getattr(p, "_session", None) is not None, e.t.is_gone()))
        return tuple(out)

    def pump_all(self, limit=200):
        """Deliver everything whole until quiescent (used for canned phases)."""
        n = 0
        while n < limit:
            n += 1
            moved = False
            for e in self.eps:
                if e.t.needs_flush():
                    e.t.flush(None)
                    moved = True
            for pipe, rcv in self.pipes:
                if pipe.ended:
                    continue
                if pipe.buf and rcv.t.can_read():
                    chunk = pipe.take(len(pipe.buf))
                    rcv.on_delivered(chunk)
                    self.fw.deliver(self, rcv.t, chunk)
                    moved = True
            if self.fw.loop_drain(self):
                moved = True
            nt = self.fw.next_timer(self.reactor)
            if nt is not None and nt - self.now() <= 1e-4:
                self.fw.fire_next(self)
                moved = True
            if not moved:
                break
        self.check_escapes()
