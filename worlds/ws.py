"""
WebSocket worlds: real autobahn protocol endpoints on simulated transports.

* ``Ep``        - one real endpoint with recorders (callbacks, state changes, wire monitor)
* ``WsWorld``   - base world: link actions (flush / deliver / fin / rst / timers), drain
* pair world    - real client  <->  real server
* raw world     - one real endpoint <-> scripted byte-level peer (RawPeer)

Framework specific pieces come from sim.backend (tx or aio).
"""

import base64
import hashlib
import struct

from sim import backend
from sim.core import SetupViolation, HarnessError, short
from sim.ref_ws import FrameParser, SenderMonitor
from sim.seams import SEAMS

WS_MAGIC = b"258EAFA5-E914-47DA-95CA-C5AB0DC85B11"

# protocol.state values -> position on the forward-only line
_STATE_ORDER = {4: 0, 1: 1, 3: 2, 2: 3, 0: 4}  # proxy-connecting, connecting, open, closing, closed
_STATE_NAME = {4: "proxy", 1: "connecting", 3: "open", 2: "closing", 0: "closed"}

_classes = {}


def ws_classes():
    """Recording protocol classes for the loaded framework (created once per process)."""
    fw = backend.name()
    if fw in _classes:
        return _classes[fw]
    if fw == "tx":
        from autobahn.twisted import websocket as aw
    else:
        from autobahn.asyncio import websocket as aw

    class Rec:
        ep = None
        _st = None

        @property
        def state(self):
            return self._st

        @state.setter
        def state(self, v):
            if self.ep is not None:
                self.ep.state_change(self._st, v)
            self._st = v

        def onOpen(self):
            self.ep.ev("onOpen")
            return self.ep.hook("on_open")

        def onMessage(self, payload, isBinary):
            self.ep.ev("onMessage", payload, isBinary)
            return self.ep.hook("on_message", payload, isBinary)

        def onPing(self, payload):
            self.ep.ev("onPing", payload)
            return super().onPing(payload)

        def onPong(self, payload):
            self.ep.ev("onPong", payload)

        def onClose(self, wasClean, code, reason):
            self.ep.ev("onClose", wasClean, code, reason)
            return self.ep.hook("on_close", wasClean, code, reason)

    class RecServer(Rec, aw.WebSocketServerProtocol):
        def onConnect(self, request):
            self.ep.ev("onConnect", request.protocols, request.version)
            self.ep.request = request
            r = self.ep.hook("on_connect", request)
            return r

    class RecClient(Rec, aw.WebSocketClientProtocol):
        def onConnecting(self, details):
            self.ep.ev("onConnecting")
            return self.ep.hook("on_connecting", details)

        def onConnect(self, response):
            self.ep.ev("onConnect", response.protocol, response.version)
            self.ep.response = response
            return self.ep.hook("on_connect", response)

    _classes[fw] = (aw, RecServer, RecClient)
    return _classes[fw]


class Ep:
    """A real endpoint plus everything observed about it."""

    def __init__(self, world, name, is_server):
        self.world = world
        self.run = world.run
        self.name = name
        self.is_server = is_server
        self.t = None
        self.p = None
        self.events = []  # (kind, args..., step)
        self.hooks = {}
        self.states = []  # sequence of states entered
        self.state_times = {}
        self.closed_cb = None  # args of onClose
        self.onclose_count = 0
        self.after_close_events = []
        self.http_out = bytearray()
        self.http_done = False
        self.monitor = None
        self.wire_open_offset = None
        self.rx = FrameParser()  # frames actually delivered *to* this endpoint
        self.rx_http_done = False
        self.rx_http = bytearray()
        self.rx_close_frames = []  # (code, reason_bytes, valid_len)
        self.request = None
        self.response = None
        self.is_closed_fired = 0
        self.is_open_fired = 0
        self.close_frame_flushed = False
        self.writes_after_onclose = 0

    # --- recorders ---------------------------------------------------------------------------
    def ev(self, kind, *args):
        self.run.log("cb", self.name, kind, *[short(a) if isinstance(a, (bytes, bytearray)) else a for a in args])
        self.events.append((kind,) + args + (self.run.steps,))
        if kind == "onClose":
            self.onclose_count += 1
            if self.closed_cb is None:
                self.closed_cb = args
                self.onclose_transport_gone = self.t.is_gone()
                self.onclose_time = self.world.now()
                self.queue_at_onclose = len(getattr(self.p, "send_queue", ()))
        elif self.closed_cb is not None:
            self.after_close_events.append(kind)

    def hook(self, name, *args):
        h = self.hooks.get(name)
        if h is not None:
            return h(*args)
        return None

    def state_change(self, old, new):
        self.run.log("state", self.name, _STATE_NAME.get(old), _STATE_NAME.get(new))
        self.states.append(new)
        if new not in self.state_times:
            self.state_times[new] = self.world.now()
        if old is not None and _STATE_ORDER[new] < _STATE_ORDER[old]:
            if self.world.PROP == "C05":
                self.run.violate("C05.forward-only", "%s->%s" % (_STATE_NAME[old], _STATE_NAME[new]),
                                 "%s went backwards" % self.name)
            else:
                self.run.probe("state-went-backwards(C05 territory)")

    def on_write(self, data):
        """Observer on transport.write(): split HTTP handshake from frames."""
        if self.closed_cb is not None:
            self.writes_after_onclose += 1
        if not self.http_done:
            self.http_out += data
            i = self.http_out.find(b"\r\n\r\n")
            if i < 0:
                return
            rest = bytes(self.http_out[i + 4:])
            del self.http_out[i + 4:]
            self.http_done = True
            self.wire_open_offset = len(self.http_out)
            data = rest
            if not data:
                return
        if self.monitor is not None:
            self.monitor.feed(data)

    def on_delivered(self, data):
        """Octets actually handed to this endpoint (for clean-means-both etc.)."""
        if not self.rx_http_done:
            self.rx_http += data
            i = self.rx_http.find(b"\r\n\r\n")
            if i < 0:
                return
            data = bytes(self.rx_http[i + 4:])
            del self.rx_http[i + 4:]
            self.rx_http_done = True
        for f in self.rx.feed(data):
            if f.opcode == 8:
                self.rx_close_frames.append(f.payload)

    @property
    def state(self):
        return self.p._st

    def state_name(self):
        return _STATE_NAME.get(self.p._st)


class WsWorld:
    """Base class.  Subclasses define PROP, configure(), extra_actions(), check_step(),
    final()."""

    PROP = "C00"
    DRAIN_HORIZON = 400.0  # virtual seconds
    START_OFFSETS = (0.0, 0.25, 0.5, 0.999, 1.0, 3.7)

    def __init__(self, run):
        self.run = run
        self.fw = backend.mod()
        self.fwname = backend.name()
        self.eps = []
        self.pipes = []  # (pipe, receiver) receiver is Ep or RawPeer
        self.peer = None
        self.draining = False
        self.extra_time = 0.0

    # --- time ------------------------------------------------------------------------------
    def now(self):
        return self.reactor.seconds()

    # --- construction ------------------------------------------------------------------------
    def make_reactor(self, start=0.0):
        self.reactor = self.fw.new_reactor()
        if start:
            self.reactor.advance(start)
        self.run.now = self.now
        SEAMS.reseed(self.run.ch.choose(1 << 30, "seed") if False else self._seed(), self.now)

    def _seed(self):
        # the seam PRNG is seeded from the choice sequence so that replay reproduces masks/keys
        return self.run.ch.choose(1 << 16, "seamseed")

    def build_pair(self, cfac, sfac, masking_c="must", masking_s="mustnot", comp=None):
        aw, RecServer, RecClient = ws_classes()
        sfac.protocol = RecServer
        cfac.protocol = RecClient
        tc, ts, pc, ps, c2s, s2c = self.fw.connect_pair(self.run, self.reactor, cfac, sfac)
        c = Ep(self, "C", False)
        s = Ep(self, "S", True)
        for ep, t, p in ((c, tc, pc), (s, ts, ps)):
            ep.t, ep.p = t, p
            p.ep = ep
            t.observers.append(ep.on_write)
        self.client, self.server = c, s
        self.eps = [c, s]
        self.pipes = [(c2s, s), (s2c, c)]
        self.c2s, self.s2c = c2s, s2c
        return c, s

    def decoy_pair(self, cfac, sfac, script):
        """An earlier connection between the same two factories, run to completion before the judged connection starts:
        handshake, `script(client_ep, server_ep)` (application activity), then the connection is cut (RST both ways).
        Nothing it leaves behind in the process, the factories or the classes may affect the judged connection."""
        tc, ts, pc, ps, c2s, s2c = self.fw.connect_pair(self.run, self.reactor, cfac, sfac, names=("DC", "DS"))
        dc, ds = Ep(self, "DC", False), Ep(self, "DS", True)
        for ep, t, p in ((dc, tc, pc), (ds, ts, ps)):
            ep.t, ep.p = t, p
            p.ep = ep
            t.observers.append(ep.on_write)
        pipes = [(c2s, ds), (s2c, dc)]

        def pump():
            for _ in range(40):
                moved = False
                for ep in (dc, ds):
                    if ep.t.needs_flush():
                        ep.t.flush(None)
                        moved = True
                for pipe, rcv in pipes:
                    if pipe.buf and not pipe.ended and rcv.t.can_read():
                        chunk = pipe.take(len(pipe.buf))
                        rcv.on_delivered(chunk)
                        self.fw.deliver(self, rcv.t, chunk)
                        moved = True
                if self.fw.loop_drain(self):
                    moved = True
                if not moved:
                    break
        self.fw.make_connection(ts)
        self.fw.make_connection(tc)
        pump()
        if dc.p._st != 3 or ds.p._st != 3:
            raise SetupViolation("own-peers-did-not-complete-the-handshake", "decoy: %r %r" % (dc.events, ds.events))
        try:
            self.fw.call(self, script, dc, ds)
        except Exception as e:  # noqa
            raise HarnessError("decoy script raised %r" % (e,))
        pump()
        # cut
        c2s.reset()
        s2c.reset()
        for pipe, rcv in pipes:
            if not rcv.t.is_gone():
                pipe.ended = True
                pipe.buf = bytearray()
                self.fw.peer_rst(self, rcv.t)
        self.fw.loop_drain(self)
        # let zero-delay continuations (abort, queued writes) run
        for _ in range(20):
            nt = self.fw.next_timer(self.reactor)
            if nt is None or nt - self.now() > 1e-3:
                break
            self.fw.fire_next(self)
            self.fw.loop_drain(self)
        for ep in (dc, ds):
            for where, exc in list(ep.t.escaped):
                self.on_escape(ep, where, exc)
        self.run.probe("decoy-connection-before")
        self.run.log("decoy", "done", dc.p._st, ds.p._st)

    def build_raw(self, fac, is_server):
        aw, RecServer, RecClient = ws_classes()
        fac.protocol = RecServer if is_server else RecClient
        t, p, peer, e2p, p2e = self.fw.connect_raw(self.run, self.reactor, fac, is_server)
        e = Ep(self, "E", is_server)
        e.t, e.p = t, p
        p.ep = e
        t.observers.append(e.on_write)
        self.e = e
        self.peer = peer
        self.eps = [e]
        self.e2p, self.p2e = e2p, p2e
        self.pipes = [(p2e, e)]
        return e, peer

    def start(self, ep):
        """connectionMade on the endpoint (the server first in pair worlds)."""
        self.fw.make_connection(ep.t)

    # --- canned handshakes for raw worlds -------------------------------------------------------
    def client_request_bytes(self, host="localhost", port=9000, resource="/", key=None, extra=b"", version=13):
        key = key or base64.b64encode(SEAMS.urandom(16))
        self.raw_key = key
        return (b"GET " + resource.encode() + b" HTTP/1.1\r\nHost: " + host.encode() + b":" + str(port).encode() +
                b"\r\nUpgrade: websocket\r\nConnection: Upgrade\r\nSec-WebSocket-Key: " + key +
                b"\r\nSec-WebSocket-Version: " + str(version).encode() + b"\r\n" + extra + b"\r\n")

    def server_response_bytes(self, request_bytes, extra=b""):
        key = None
        for line in request_bytes.split(b"\r\n"):
            if line.lower().startswith(b"sec-websocket-key:"):
                key = line.split(b":", 1)[1].strip()
        if key is None:
            raise HarnessError("no key in client request: %r" % bytes(request_bytes[:200]))
        acc = base64.b64encode(hashlib.sha1(key + WS_MAGIC).digest())
        return (b"HTTP/1.1 101 Switching Protocols\r\nUpgrade: websocket\r\nConnection: Upgrade\r\n"
                b"Sec-WebSocket-Accept: " + acc + b"\r\n" + extra + b"\r\n")

    # --- generic link actions ---------------------------------------------------------------------
    def link_actions(self):
        acts = []
        fw = self.fw
        for ep in self.eps:
            if ep.t.needs_flush():
                acts.append((6.0, "flush:" + ep.name, lambda ep=ep: self.do_flush(ep)))
        for pipe, rcv in self.pipes:
            if pipe.ended or pipe.stalled:
                continue
            t = rcv.t
            if pipe.buf and t.can_read():
                acts.append((8.0, "deliver:" + pipe.name, lambda pipe=pipe, rcv=rcv: self.do_deliver(pipe, rcv)))
            if not t.is_gone():
                if pipe.fin and not pipe.buf and t.can_read():
                    acts.append((4.0, "fin:" + pipe.name, lambda pipe=pipe, rcv=rcv: self.do_fin(pipe, rcv)))
                elif pipe.rst:
                    acts.append((3.0, "rst:" + pipe.name, lambda pipe=pipe, rcv=rcv: self.do_rst(pipe, rcv)))
        acts.extend(fw.loop_actions(self))
        return acts

    def timer_actions(self):
        nt = self.fw.next_timer(self.reactor)
        if nt is None:
            return []
        if self.fw.loop_actions(self) and nt - self.now() > 1e-9:
            # asyncio: a loop with ready callbacks does not sleep - virtual time stands still until they ran
            return []
        acts = [(8.0 if nt - self.now() < 1e-3 else 1.5, "tick", self.do_tick)]
        if nt - self.now() > 0.002:
            acts.append((0.5, "advance", self.do_advance))
        return acts

    def do_flush(self, ep):
        n = len(ep.t.outbuf) if hasattr(ep.t, "outbuf") else 0
        k = None
        if n > 1 and self.run.ch.flag("partial-flush", 0.08):
            k = 1 + self.run.ch.choose(n - 1, "flush-k")
            self.run.probe("partial-flush")
        ep.t.flush(k)

    def pick_chunk(self, n):
        ch = self.run.ch
        if n <= 1:
            return n
        mode = ch.choose(5, "chunk-mode", (5, 2, 3, 2, 1))
        if mode == 0:
            return n
        if mode == 1:
            return 1
        if mode == 2:
            return 1 + ch.choose(n, "chunk-k")
        if mode == 3:
            return min(n, 2 + ch.choose(13, "chunk-small"))
        return max(1, n - 1 - ch.choose(min(n - 1, 3), "chunk-tail"))

    BURSTS = (2, 3, 5, 40)

    def do_deliver(self, pipe, rcv):
        k = self.pick_chunk(len(pipe.buf))
        chunk = pipe.take(k)
        if pipe.buf:
            self.run.probe("split-delivery")
        if len(chunk) >= 2 and self.run.ch.flag("burst", 0.1):
            # the same octets arrive as several reads handed over back to back, before any other callback runs
            n = min(len(chunk), self.run.ch.pick(self.BURSTS, "burst-n"))
            cuts = sorted(set(1 + self.run.ch.choose(len(chunk) - 1, "burst-cut") for _ in range(n - 1)))
            pieces = [chunk[a:b] for a, b in zip([0] + cuts, cuts + [len(chunk)])]
            self.run.probe("burst-delivery")
            self.run.log("deliver-burst", pipe.name, len(chunk), len(pieces), short(chunk))
            for piece in pieces:
                rcv.on_delivered(piece)
            self.fw.deliver_burst(self, rcv.t, pieces)
            return
        others = [(p2, r2) for p2, r2 in self.pipes if r2 is not rcv and p2.buf and not p2.ended and not p2.stalled
                  and hasattr(r2, "t") and r2.t.can_read()]
        if others and self.run.ch.flag("two-sockets-readable-in-one-iteration", 0.12):
            # one select() round reports two sockets readable: both are read before anything scheduled 'for later' runs
            pipe2, rcv2 = others[self.run.ch.choose(len(others), "other-socket")]
            chunk2 = pipe2.take(self.pick_chunk(len(pipe2.buf)))
            self.run.probe("two-connections-read-in-one-iteration")
            self.run.log("deliver-multi", pipe.name, len(chunk), short(chunk), pipe2.name, len(chunk2), short(chunk2))
            rcv.on_delivered(chunk)
            rcv2.on_delivered(chunk2)
            self.fw.deliver_multi(self, [(rcv.t, chunk), (rcv2.t, chunk2)])
            return
        self.deliver_chunk(pipe, rcv, chunk)

    def deliver_chunk(self, pipe, rcv, chunk):
        self.run.log("deliver", pipe.name, len(chunk), short(chunk))
        rcv.on_delivered(chunk)
        self.fw.deliver(self, rcv.t, chunk)

    def do_fin(self, pipe, rcv):
        pipe.ended = True
        self.run.log("fin", pipe.name)
        self.fw.peer_fin(self, rcv.t)

    def do_rst(self, pipe, rcv):
        pipe.ended = True
        lost = len(pipe.buf)
        pipe.buf = bytearray()
        self.run.log("rst", pipe.name, lost)
        if lost:
            self.run.probe("rst-discarded-inflight")
        self.fw.peer_rst(self, rcv.t)

    def do_tick(self):
        self.fw.fire_next(self)

    def do_advance(self):
        nt = self.fw.next_timer(self.reactor)
        gap = nt - self.now()
        frac = self.run.ch.pick((0.5, 0.9, 0.999, 0.1), "advance-frac")
        self.fw.advance(self, gap * frac)

    # --- step loop interface ---------------------------------------------------------------------
    def actions(self):
        return self.link_actions() + self.timer_actions() + self.extra_actions()

    def extra_actions(self):
        return []

    def abstract_state(self):
        return tuple(ep.p._st for ep in self.eps)

    def check_step(self):
        self.check_escapes()

    def check_escapes(self):
        esc = self.reactor.escaped
        if esc:
            self.reactor.escaped = None
            for where, exc in esc:
                self.run.log("escaped", "reactor", where, type(exc).__name__)
                self.on_escape(None, where, exc)
        for ep in self.eps:
            while ep.t.escaped:
                where, exc = ep.t.escaped.pop(0)
                self.on_escape(ep, where, exc)

    def on_escape(self, ep, where, exc):
        self.run.violate("%s.no-escape" % self.PROP, "%s:%s:%s" % (where, type(exc).__name__, exc_site(exc)),
                         "%s: %r" % (ep.name if ep is not None else "loop", exc))

    def quiescent(self):
        if self.link_actions():
            return False
        return True

    def drain(self):
        """Faults stop; deliver everything whole, fire timers in order up to the horizon."""
        self.draining = True
        t_end = self.now() + self.DRAIN_HORIZON
        guard = 0
        while guard < 60000:
            guard += 1
            progressed = False
            for ep in self.eps:
                if ep.t.needs_flush():
                    ep.t.flush(None)
                    progressed = True
            for pipe, rcv in self.pipes:
                if pipe.ended:
                    continue
                pipe.stalled = False
                t = rcv.t
                if pipe.buf and t.can_read():
                    chunk = pipe.take(len(pipe.buf))
                    self.deliver_chunk(pipe, rcv, chunk)
                    progressed = True
                elif not t.is_gone():
                    if pipe.fin and not pipe.buf and t.can_read():
                        self.do_fin(pipe, rcv)
                        progressed = True
                    elif pipe.rst:
                        self.do_rst(pipe, rcv)
                        progressed = True
            if self.fw.loop_drain(self):
                progressed = True
            self.drain_hook()
            self.check_step()
            if self.run.fatal:
                return
            if progressed:
                continue
            nt = self.fw.next_timer(self.reactor)
            if nt is None or nt > t_end:
                break
            self.fw.fire_next(self)
            self.check_step()
        if guard >= 60000:
            raise HarnessError("drain did not converge")

    def drain_hook(self):
        pass

    def sample(self):
        return {"kind": getattr(self, "kind", None), "config": {k: repr(v) for k, v in getattr(self, "cfg", {}).items()},
                "endpoints": {ep.name: [e[0] for e in ep.events][:30] for ep in self.eps}}

    def final(self):
        pass


def exc_site(exc):
    """Innermost autobahn frame of an exception's traceback: 'file.py:function'."""
    tb = exc.__traceback__
    site = "?"
    while tb is not None:
        fn = tb.tb_frame.f_code.co_filename
        if "/autobahn/" in fn:
            site = "%s:%s" % (fn.rsplit("/autobahn/", 1)[1], tb.tb_frame.f_code.co_name)
        tb = tb.tb_next
    return site
