"""
Session world: a real ApplicationSession / Session on a simulated ITransport, a stub router
on the other side.  Messages make a real serialize -> unserialize round trip in both
directions, so the marshal/parse paths are real code; the stub router speaks through the
library's message classes (trusted base, stated in the evidence).

Transport model (what the real WAMP transports do, autobahn/wamp/websocket.py and
*/rawsocket.py): send() raises TransportLost once the session is detached; close()/abort()
only *start* closing - the session stays attached and gets onClose(wasClean) later, as a
separate event decided by the scheduler.
"""

import txaio

from sim import backend
from sim.core import HarnessError, short
from sim.seams import SEAMS


def session_classes():
    fw = backend.name()
    if fw == "tx":
        from autobahn.twisted import wamp as fwamp
    else:
        from autobahn.asyncio import wamp as fwamp
    return fwamp


def make_serializer(name):
    from autobahn.wamp import serializer as S
    return {"json": S.JsonSerializer, "cbor": S.CBORSerializer, "msgpack": S.MsgPackSerializer,
            "ubjson": S.UBJSONSerializer}[name]()


SERIALIZERS = ("json", "cbor", "msgpack", "ubjson")


class StubTransport:
    """ITransport seen by the session."""

    def __init__(self, world, ser_name, send_after_close="raise"):
        from autobahn.wamp.types import TransportDetails
        self.world = world
        self.run = world.run
        self._serializer = make_serializer(ser_name)
        self._rser = make_serializer(ser_name)  # router side
        self.attached = True
        self.closing = None  # None / 'close' / 'abort'
        self.sent = []  # parsed messages as the router sees them
        self.send_after_close = send_after_close
        self.is_closed = txaio.create_future()
        self._transport_details = TransportDetails(channel_type=TransportDetails.CHANNEL_TYPE_TCP,
                                                   channel_framing=TransportDetails.CHANNEL_FRAMING_WEBSOCKET,
                                                   peer="tcp4:10.0.0.1:9000", is_server=False, own_pid=1, own_tid=1, own_fd=-1,
                                                   is_secure=False, channel_id={}, peer_cert=None)
        self.send_fail = None  # optional callable(msg) -> exception to raise

    @property
    def transport_details(self):
        return self._transport_details

    def isOpen(self):
        return self.attached

    def send(self, msg):
        from autobahn.wamp.exception import SerializationError, TransportLost
        hook = getattr(self.world, "on_send_attempt", None)
        if hook is not None:
            hook(msg)
        if not self.attached:
            self.run.log("send-on-detached", type(msg).__name__)
            raise TransportLost()
        if self.closing is not None:
            self.run.log("send-while-closing", type(msg).__name__)
            if self.send_after_close == "raise":
                from autobahn.exception import Disconnected
                raise Disconnected("Attempt to send on a closed protocol")
            return
        if self.send_fail is not None:
            exc = self.send_fail(msg)
            if exc is not None:
                raise exc
        try:
            data, is_binary = self._serializer.serialize(msg)
        except Exception as e:  # noqa
            raise SerializationError("WAMP message serialization error: {}".format(e))
        parsed = self._rser.unserialize(data, is_binary)
        if len(parsed) != 1:
            raise HarnessError("round trip produced %d messages" % len(parsed))
        m = parsed[0]
        self.run.log("sent", type(m).__name__, _mshort(m))
        self.sent.append(m)
        self.world.on_sent(m)

    def close(self):
        from autobahn.wamp.exception import TransportLost
        self.run.log("transport.close", self.attached, self.closing)
        if not self.attached:
            raise TransportLost()
        if self.closing is None:
            self.closing = "close"

    def abort(self):
        from autobahn.wamp.exception import TransportLost
        self.run.log("transport.abort", self.attached, self.closing)
        if not self.attached:
            raise TransportLost()
        self.closing = "abort"


def _mshort(m):
    try:
        x = m.marshal()
    except Exception as e:  # noqa
        return "unmarshalable:%s" % type(e).__name__
    s = repr(x)
    return s if len(s) < 160 else s[:150] + "..%d" % len(s)


class SessionWorld:
    """Base for C04 / C06 / C11 (and the session halves of C18 / C20)."""

    PROP = "C00"

    def __init__(self, run):
        self.run = run
        self.fw = backend.mod()
        self.fwname = backend.name()
        self.draining = False
        self.session = None
        self.t = None
        self.cb_log = []  # session callbacks in order
        self.escaped = []  # (where, exc)
        self.router_inbox = []

    def now(self):
        return self.reactor.seconds()

    def make_reactor(self):
        self.reactor = self.fw.new_reactor()
        self.run.now = self.now
        SEAMS.reseed(self.run.ch.choose(1 << 16, "seamseed"), self.now)

    # --- to be provided by subclasses -------------------------------------------------------------
    def on_sent(self, msg):
        self.router_inbox.append(msg)

    # --- helpers ---------------------------------------------------------------------------------------
    def call(self, fn, *a, **kw):
        """Run fn as application/transport code inside the framework's context."""
        return self.fw.call(self, lambda: fn(*a, **kw))

    def deliver(self, msg, roundtrip=True):
        """Router -> session.  Returns the exception raised by onMessage (or None)."""
        if not self.t.attached:
            return None
        if roundtrip:
            data, is_binary = self.t._rser.serialize(msg)
            msgs = self.t._serializer.unserialize(data, is_binary)
            if len(msgs) != 1:
                raise HarnessError("router round trip gave %d messages" % len(msgs))
            msg = msgs[0]
        self.run.log("deliver", type(msg).__name__, _mshort(msg))
        try:
            self.call(self.session.onMessage, msg)
        except Exception as e:  # noqa
            self.run.log("onMessage-raised", type(e).__name__)
            return e
        return None

    def transport_lost(self, was_clean=False):
        if not self.t.attached:
            return
        self.t.attached = False
        self.run.log("transport-lost", was_clean)
        try:
            self.call(self.session.onClose, was_clean)
        except Exception as e:  # noqa
            self.escaped.append(("onClose", e))
            self.run.log("escaped", "onClose", type(e).__name__)
        try:
            self.call(lambda: txaio.resolve(self.t.is_closed, None) if not txaio.is_called(self.t.is_closed) else None)
        except Exception:
            pass

    def loop_quiet(self):
        return not self.fw.loop_actions(self)

    def settle(self, limit=400):
        """Run the loop until no callback is ready (aio); fire zero-delay timers."""
        n = 0
        while n < limit:
            n += 1
            if self.fw.loop_drain(self):
                continue
            nt = self.fw.next_timer(self.reactor)
            if nt is not None and nt - self.now() <= 1e-9:
                self.fw.fire_next(self)
                continue
            break
        self.collect_loop_escapes()

    def collect_loop_escapes(self):
        esc = self.reactor.escaped
        if esc:
            self.reactor.escaped = None
            for where, exc in esc:
                self.escaped.append((where, exc))
                self.run.log("escaped", where, type(exc).__name__)

    # --- step-loop interface (defaults) ---------------------------------------------------------------------
    def base_actions(self):
        acts = list(self.fw.loop_actions(self))
        nt = self.fw.next_timer(self.reactor)
        if nt is not None and not (acts and nt - self.now() > 1e-9):
            acts.append((6.0 if nt - self.now() < 1e-3 else 0.7, "tick", lambda: self.fw.fire_next(self)))
        return acts

    def abstract_state(self):
        s = self.session
        return (s._session_id is not None, s._transport is not None, s._goodbye_sent)

    def check_step(self):
        self.collect_loop_escapes()

    def drain(self):
        self.draining = True
        self.settle()

    def final(self):
        pass

    def nontrivial(self):
        return True

    def teardown(self):
        try:
            if self.fwname == "aio":
                self.reactor.close()
        except Exception:
            pass
